// TRUSTED CONTRACTS for std::collections::HashSet<usize> / HashMap<usize, usize> as used by slice.rs / merge.rs
// (specified, not verified; `usize` keys only, whose Eq/Hash are the primitive ones).
#[verifier::external_body]
#[verifier::reject_recursive_types(T)]
pub struct HashSet<T> { p: core::marker::PhantomData<T> }
#[verifier::external_body]
#[verifier::reject_recursive_types(T)]
pub struct Drain<T> { p: core::marker::PhantomData<T> }

impl Drain<usize> {
    /// the elements the drain will yield, in (unspecified) iteration order
    pub uninterp spec fn items(&self) -> Seq<usize>;
    /// std `Iterator::collect::<Vec<_>>()` as instantiated for this iterator
    #[verifier::external_body]
    pub fn collect(self) -> (r: Vec<usize>) ensures r@ == self.items() { unimplemented!() }
}

impl HashSet<usize> {
    pub uninterp spec fn view(&self) -> Set<usize>;

    #[verifier::external_body]
    pub fn new() -> (r: Self) ensures r.view() == Set::<usize>::empty() { unimplemented!() }

    #[verifier::external_body]
    pub fn insert(&mut self, v: usize) -> (r: bool)
        ensures final(self).view() == old(self).view().insert(v), r == !old(self).view().contains(v),
    { unimplemented!() }

    #[verifier::external_body]
    pub fn contains(&self, v: &usize) -> (r: bool) ensures r == self.view().contains(*v) { unimplemented!() }

    #[verifier::external_body]
    pub fn is_empty(&self) -> (r: bool) ensures r == (forall|x: usize| !self.view().contains(x)) { unimplemented!() }

    /// removes everything; the iterator yields each former element exactly once, in an unspecified order
    #[verifier::external_body]
    pub fn drain(&mut self) -> (r: Drain<usize>)
        ensures
            final(self).view() == Set::<usize>::empty(),
            forall|x: usize| old(self).view().contains(x) <==> r.items().contains(x),
            forall|i: int, j: int| 0 <= i < j < r.items().len() ==> r.items()[i] != r.items()[j],
    { unimplemented!() }
}
