// TRUSTED CONTRACTS for std::collections::HashSet<usize> / HashMap<usize, usize> as used by slice.rs / merge.rs
// (specified, not verified; `usize` keys only, whose Eq/Hash are the primitive ones).
#[verifier::external_body]
#[verifier::reject_recursive_types(T)]
pub struct HashSet<T> { p: core::marker::PhantomData<T> }
#[verifier::external_body]
#[verifier::reject_recursive_types(T)]
pub struct Drain<T> { p: core::marker::PhantomData<T> }

/// the collection `collect()` builds: a Vec<usize> (written with a turbofish or with a type annotation on the binding)
pub trait CollectsUsize { spec fn items(&self) -> Seq<usize>; }
impl CollectsUsize for Vec<usize> { open spec fn items(&self) -> Seq<usize> { self@ } }

impl Drain<usize> {
    /// the elements the drain will yield, in (unspecified) iteration order
    pub uninterp spec fn items(&self) -> Seq<usize>;
    /// std `Iterator::collect::<Vec<_>>()` as instantiated for this iterator
    #[verifier::external_body]
    pub fn collect<C: CollectsUsize>(self) -> (r: C) ensures r.items() == self.items() { unimplemented!() }
}

impl HashSet<usize> {
    pub uninterp spec fn view(&self) -> Set<usize>;

    #[verifier::external_body]
    pub fn new() -> (r: Self) ensures r.view() == Set::<usize>::empty() { unimplemented!() }

    #[verifier::external_body]
    pub fn insert(&mut self, v: usize) -> (r: bool)
        ensures final(self).view() == old(self).view().insert(v), r == !old(self).view().contains(v),
    { unimplemented!() }

    #[verifier::external_body]
    pub fn contains(&self, v: &usize) -> (r: bool) ensures r == self.view().contains(*v) { unimplemented!() }

    #[verifier::external_body]
    pub fn is_empty(&self) -> (r: bool) ensures r == (forall|x: usize| !self.view().contains(x)) { unimplemented!() }

    /// removes everything; the iterator yields each former element exactly once, in an unspecified order
    #[verifier::external_body]
    pub fn drain(&mut self) -> (r: Drain<usize>)
        ensures
            final(self).view() == Set::<usize>::empty(),
            forall|x: usize| old(self).view().contains(x) <==> r.items().contains(x),
            forall|i: int, j: int| 0 <= i < j < r.items().len() ==> r.items()[i] != r.items()[j],
    { unimplemented!() }
}

// ---- additions for merge.rs ----
#[verifier::external_body]
#[verifier::reject_recursive_types(T)]
pub struct SetIntoIter<T> { p: core::marker::PhantomData<T> }
impl SetIntoIter<usize> {
    #[verifier::external_body]
    pub fn collect<C: CollectsUsize>(self) -> (r: C) { unimplemented!() }
}
impl HashSet<usize> {
    /// std `FromIterator::from_iter` as instantiated for a Vec<usize>
    #[verifier::external_body]
    pub fn from_iter(v: Vec<usize>) -> (r: Self) ensures forall|x: usize| r.view().contains(x) <==> v@.contains(x) { unimplemented!() }
    #[verifier::external_body]
    pub fn into_iter(self) -> (r: SetIntoIter<usize>) { unimplemented!() }
}
/// `&a - &b`: set difference
/// std `Clone for HashSet`: an independent set with the same elements
impl Clone for HashSet<usize> {
    #[verifier::external_body]
    fn clone(&self) -> (r: Self) ensures r.view() == self.view() { unimplemented!() }
}
impl<'a> core::ops::Sub<&'a HashSet<usize>> for &'a HashSet<usize> {
    type Output = HashSet<usize>;
    #[verifier::external_body]
    fn sub(self, rhs: &'a HashSet<usize>) -> (r: HashSet<usize>)
        ensures r.view() == self.view().difference(rhs.view())
    { unimplemented!() }
}
impl<'a> vstd::std_specs::ops::SubSpecImpl<&'a HashSet<usize>> for &'a HashSet<usize> {
    open spec fn obeys_sub_spec() -> bool { false }
    open spec fn sub_req(self, rhs: &'a HashSet<usize>) -> bool { true }
    open spec fn sub_spec(self, rhs: &'a HashSet<usize>) -> HashSet<usize> { arbitrary() }
}
pub assume_specification<T: core::cmp::Ord>[ <[T]>::sort_unstable ](s: &mut [T]);

#[verifier::external_body]
#[verifier::reject_recursive_types(K)]
#[verifier::reject_recursive_types(V)]
pub struct HashMap<K, V> { p: core::marker::PhantomData<(K, V)> }
#[verifier::external_body]
pub struct MapKeys<'a> { p: core::marker::PhantomData<&'a usize> }
#[verifier::external_body]
pub struct MapKeysCopied<'a> { p: core::marker::PhantomData<&'a usize> }
impl<'a> MapKeys<'a> {
    #[verifier::external_body]
    pub fn copied(self) -> (r: MapKeysCopied<'a>) { unimplemented!() }
}
impl<'a> MapKeysCopied<'a> {
    #[verifier::external_body]
    pub fn collect<C: CollectsUsize>(self) -> (r: C) { unimplemented!() }
}
impl HashMap<usize, usize> {
    pub uninterp spec fn view(&self) -> Map<usize, usize>;

    #[verifier::external_body]
    pub fn new() -> (r: Self) ensures r.view() == Map::<usize, usize>::empty() { unimplemented!() }

    #[verifier::external_body]
    pub fn contains_key(&self, k: &usize) -> (r: bool) ensures r == self.view().contains_key(*k) { unimplemented!() }

    #[verifier::external_body]
    pub fn insert(&mut self, k: usize, v: usize) -> (r: Option<usize>)
        ensures final(self).view() == old(self).view().insert(k, v),
    { unimplemented!() }

    #[verifier::external_body]
    pub fn get(&self, k: &usize) -> (r: Option<&usize>)
        ensures match r { Some(v) => self.view().contains_key(*k) && *v == self.view()[*k], None => !self.view().contains_key(*k) },
    { unimplemented!() }

    #[verifier::external_body]
    pub fn len(&self) -> (r: usize) ensures r == self.view().dom().len() { unimplemented!() }

    #[verifier::external_body]
    pub fn keys(&self) -> (r: MapKeys<'_>) { unimplemented!() }
}
