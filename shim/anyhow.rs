// anyhow::Result / Error / Context / anyhow!: the error value is opaque (its text is not part of any contract)
pub mod anyhow {
    use vstd::prelude::*;
    #[verifier::external_body]
    pub struct Error { x: u8 }
    impl core::fmt::Debug for Error {
        #[verifier::external_body]
        fn fmt(&self, f: &mut core::fmt::Formatter<'_>) -> core::fmt::Result { unimplemented!() }
    }
    pub type Result<T> = core::result::Result<T, Error>;

    /// what `anyhow!(..)` becomes under T9: some error value
    #[verifier::external_body]
    pub fn anyhow() -> Error { unimplemented!() }

    /// anyhow::Context for Option: Some(x) -> Ok(x), None -> Err(context)
    pub trait Context<T> {
        fn with_context<F: FnOnce() -> String>(self, f: F) -> (r: Result<T>);
    }
    impl<T> Context<T> for Option<T> {
        #[verifier::external_body]
        fn with_context<F: FnOnce() -> String>(self, f: F) -> (r: Result<T>)
            ensures
                match self { Some(x) => r == Ok::<T, Error>(x), None => r is Err },
        { unimplemented!() }
    }
}
/// what `format!(..)` becomes under T9: some string
#[verifier::external_body]
pub fn __fmt_opaque() -> String { unimplemented!() }
