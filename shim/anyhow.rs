// anyhow::Result / anyhow::Error: the error value is opaque (its text is not part of any contract)
pub mod anyhow {
    use vstd::prelude::*;
    #[verifier::external_body]
    pub struct Error { x: u8 }
    pub type Result<T> = core::result::Result<T, Error>;
}
