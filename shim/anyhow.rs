// anyhow::Result / Error / Context / anyhow!: the error value is opaque (its text is not part of any contract)
pub mod anyhow {
    use vstd::prelude::*;
    #[verifier::external_body]
    pub struct Error { x: u8 }
    impl core::fmt::Debug for Error {
        #[verifier::external_body]
        fn fmt(&self, f: &mut core::fmt::Formatter<'_>) -> core::fmt::Result { unimplemented!() }
    }
    pub type Result<T> = core::result::Result<T, Error>;

    /// what `anyhow!(..)` becomes under T9: some error value
    #[verifier::external_body]
    pub fn anyhow() -> Error { unimplemented!() }

    /// anyhow::Context for Option: Some(x) -> Ok(x), None -> Err(context)
    pub trait Context<T> {
        fn with_context<F: FnOnce() -> String>(self, f: F) -> (r: Result<T>);
    }
    impl<T> Context<T> for Option<T> {
        #[verifier::external_body]
        fn with_context<F: FnOnce() -> String>(self, f: F) -> (r: Result<T>)
            ensures
                match self { Some(x) => r == Ok::<T, Error>(x), None => r is Err },
        { unimplemented!() }
    }
}
/// what `panic!(..)` becomes under T9: a call that must be unreachable (the message is dropped): `requires false`
#[verifier::external_body]
pub fn __panic() -> ! requires false { panic!() }

/// what `format!(..)` becomes under T9 when its literal is not understood: some string
#[verifier::external_body]
pub fn __fmt_opaque() -> String { unimplemented!() }

/// the text Display prints for a value, as far as it is modelled (uninterpreted per type)
pub trait DisplayText {
    spec fn dt(&self) -> Seq<char>;
}
pub uninterp spec fn dec_text(v: usize) -> Seq<char>;
pub uninterp spec fn char_text(c: char) -> Seq<char>;
impl DisplayText for usize { open spec fn dt(&self) -> Seq<char> { dec_text(*self) } }
impl DisplayText for char { open spec fn dt(&self) -> Seq<char> { char_text(*self) } }
/// other integer types (a changed body that prints one is judged instead of refused): uninterpreted texts
pub uninterp spec fn int_text(v: int, bits: int) -> Seq<char>;
impl DisplayText for u16 { open spec fn dt(&self) -> Seq<char> { int_text(*self as int, 16) } }
impl DisplayText for u32 { open spec fn dt(&self) -> Seq<char> { int_text(*self as int, 32) } }
impl DisplayText for u64 { open spec fn dt(&self) -> Seq<char> { int_text(*self as int, 64) } }
impl DisplayText for i32 { open spec fn dt(&self) -> Seq<char> { int_text(*self as int, -32) } }
impl DisplayText for i64 { open spec fn dt(&self) -> Seq<char> { int_text(*self as int, -64) } }
impl DisplayText for String { open spec fn dt(&self) -> Seq<char> { self@ } }
impl<'a> DisplayText for &'a str { open spec fn dt(&self) -> Seq<char> { self@ } }
impl<'a, T: DisplayText> DisplayText for &'a T { open spec fn dt(&self) -> Seq<char> { (**self).dt() } }

/// what format! produces: an uninterpreted function of the literal and of the display texts of its arguments
pub uninterp spec fn fmt_text(lit: Seq<char>, args: Seq<Seq<char>>) -> Seq<char>;

#[verifier::external_body]
pub fn __fmt0(l: &str) -> (r: String) ensures r@ == fmt_text(l@, Seq::empty()) { unimplemented!() }
#[verifier::external_body]
pub fn __fmt1<A: DisplayText>(l: &str, a: &A) -> (r: String) ensures r@ == fmt_text(l@, seq![a.dt()]) { unimplemented!() }
#[verifier::external_body]
pub fn __fmt2<A: DisplayText, B: DisplayText>(l: &str, a: &A, b: &B) -> (r: String)
    ensures r@ == fmt_text(l@, seq![a.dt(), b.dt()]) { unimplemented!() }
#[verifier::external_body]
pub fn __fmt3<A: DisplayText, B: DisplayText, C: DisplayText>(l: &str, a: &A, b: &B, c: &C) -> (r: String)
    ensures r@ == fmt_text(l@, seq![a.dt(), b.dt(), c.dt()]) { unimplemented!() }
#[verifier::external_body]
pub fn __fmt4<A: DisplayText, B: DisplayText, C: DisplayText, D: DisplayText>(l: &str, a: &A, b: &B, c: &C, d: &D) -> (r: String)
    ensures r@ == fmt_text(l@, seq![a.dt(), b.dt(), c.dt(), d.dt()]) { unimplemented!() }
#[verifier::external_body]
pub fn __fmt5<A: DisplayText, B: DisplayText, C: DisplayText, D: DisplayText, E: DisplayText>(l: &str, a: &A, b: &B, c: &C, d: &D, e: &E) -> (r: String)
    ensures r@ == fmt_text(l@, seq![a.dt(), b.dt(), c.dt(), d.dt(), e.dt()]) { unimplemented!() }
#[verifier::external_body]
pub fn __fmt6<A: DisplayText, B: DisplayText, C: DisplayText, D: DisplayText, E: DisplayText, F: DisplayText>(l: &str, a: &A, b: &B, c: &C, d: &D, e: &E, f: &F) -> (r: String)
    ensures r@ == fmt_text(l@, seq![a.dt(), b.dt(), c.dt(), d.dt(), e.dt(), f.dt()]) { unimplemented!() }
