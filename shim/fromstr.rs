// core::str::FromStr declared to Verus (the impls for Label and Hex are functions under contract)
#[verifier::external_trait_specification]
pub trait ExFromStr: Sized {
    type ExternalTraitSpecificationFor: core::str::FromStr;
    type Err;
    fn from_str(s: &str) -> Result<Self, Self::Err>;
}
