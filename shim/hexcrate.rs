// the `hex` crate (hex::decode) and str::replace: TRUSTED CONTRACTS (specified, not verified)
pub mod hex {
    use vstd::prelude::*;
    #[verifier::external_body]
    pub struct FromHexError { x: u8 }
    impl From<FromHexError> for super::anyhow::Error {
        #[verifier::external_body]
        fn from(e: FromHexError) -> Self { unimplemented!() }
    }
    /// hex::decode(data): what it returns is a function of the data
    pub uninterp spec fn decode_rel<T>(data: T, r: Option<Seq<u8>>) -> bool;
    #[verifier::external_body]
    pub fn decode<T: AsRef<[u8]>>(data: T) -> (r: Result<Vec<u8>, FromHexError>)
        ensures decode_rel(data, match r { Ok(v) => Some(v@), Err(_) => None }),
            r matches Ok(v) ==> v@.len() <= isize::MAX,
    { unimplemented!() }
}
/// hex::decode of a String: a partial function of the text
pub uninterp spec fn hex_decode(t: Seq<char>) -> Option<Seq<u8>>;
pub broadcast axiom fn axiom_decode_string(s: String, r: Option<Seq<u8>>)
    ensures #[trigger] hex::decode_rel::<String>(s, r) ==> r == hex_decode(s@);
/// the empty text decodes to no bytes
pub broadcast axiom fn axiom_decode_empty()
    ensures #[trigger] hex_decode(Seq::<char>::empty()) == Some(Seq::<u8>::empty());

/// str::replace(pattern, &str): a function of its arguments; with a `char` pattern and the empty replacement: the text
/// without that character
pub uninterp spec fn replaced<P>(s: Seq<char>, from: P, to: Seq<char>) -> Seq<char>;
pub assume_specification<P: core::str::pattern::Pattern>[ str::replace::<P> ](s: &str, from: P, to: &str) -> (r: String)
    ensures r@ == replaced(s@, from, to@);
#[verifier::opaque]
pub open spec fn without(t: Seq<char>, c: char) -> Seq<char> { t.filter(|x: char| x != c) }
pub broadcast axiom fn axiom_replace_char_by_nothing(s: Seq<char>, c: char)
    ensures #[trigger] replaced(s, c, Seq::<char>::empty()) == without(s, c);

/// <[String]>::join(&str): the parts with the separator between them
pub open spec fn join_def(parts: Seq<Seq<char>>, sep: Seq<char>) -> Seq<char>
    decreases parts.len(),
{
    if parts.len() == 0 { Seq::empty() } else if parts.len() == 1 { parts[0] } else { join_def(parts.drop_last(), sep) + sep + parts.last() }
}
pub broadcast axiom fn axiom_joined_def(parts: Seq<Seq<char>>, sep: Seq<char>)
    ensures #[trigger] joined(parts, sep) == join_def(parts, sep);

/// the format! literal is `{name:02X}`
pub open spec fn ident_char(c: char) -> bool { c == '_' || ('a' <= c <= 'z') || ('A' <= c <= 'Z') || ('0' <= c <= '9') }
pub open spec fn is_02x_lit(lit: Seq<char>) -> bool {
    lit.len() >= 6 && lit[0] == '{' && lit[lit.len() - 1] == '}' && lit[lit.len() - 2] == 'X' && lit[lit.len() - 3] == '2'
    && lit[lit.len() - 4] == '0' && lit[lit.len() - 5] == ':'
    && (forall|i: int| 1 <= i < lit.len() - 5 ==> ident_char(#[trigger] lit[i]))
}
/// format!("{:02X}", b) is two hexadecimal digits (no dash among them), and hex::decode reads a text that ends with them as
/// the bytes of the text before them followed by b
pub axiom fn axiom_02x_decode(lit: Seq<char>, b: u8, t: Seq<char>)
    requires is_02x_lit(lit),
    ensures ({
        let p = fmt_text(lit, seq![byte_text(b)]);
        p.len() == 2 && p[0] != '-' && p[1] != '-'
        && hex_decode(t + p) == (match hex_decode(t) { Some(v) => Some(v.push(b)), None => None })
    });

// ---- lemmas (proved)
pub proof fn lemma_without_add(a: Seq<char>, b: Seq<char>, c: char)
    ensures without(a + b, c) == without(a, c) + without(b, c),
{
    reveal(without);
    Seq::filter_distributes_over_add(a, b, |x: char| x != c);
}
pub proof fn lemma_without_none(a: Seq<char>, c: char)
    requires forall|i: int| 0 <= i < a.len() ==> a[i] != c,
    ensures without(a, c) == a,
    decreases a.len(),
{
    reveal(without);
    reveal(Seq::filter);
    if a.len() > 0 {
        lemma_without_none(a.drop_last(), c);
        assert(a.drop_last().push(a.last()) =~= a);
    }
}
pub proof fn lemma_without_all(a: Seq<char>, c: char)
    requires forall|i: int| 0 <= i < a.len() ==> a[i] == c,
    ensures without(a, c) == Seq::<char>::empty(),
    decreases a.len(),
{
    reveal(without);
    reveal(Seq::filter);
    if a.len() > 0 {
        lemma_without_all(a.drop_last(), c);
    }
}
/// the parts of print(), joined by dashes, with the dashes taken out again, decode to the bytes
pub proof fn lemma_parts_decode(b: Seq<u8>, parts: Seq<Seq<char>>, lit: Seq<char>)
    requires
        is_02x_lit(lit), parts.len() == b.len(), b.len() >= 1,
        forall|i: int| 0 <= i < parts.len() ==> #[trigger] parts[i] == fmt_text(lit, seq![byte_text(b[i])]),
    ensures hex_decode(without(join_def(parts, seq!['-']), '-')) == Some(b),
    decreases parts.len(),
{
    broadcast use axiom_decode_empty;
    let n = parts.len() as int;
    let p = parts.last();
    assert(p == fmt_text(lit, seq![byte_text(b[n - 1])]));
    if n == 1 {
        axiom_02x_decode(lit, b[0], Seq::<char>::empty());
        lemma_without_none(p, '-');
        assert(Seq::<char>::empty() + p =~= p);
        assert(Seq::<u8>::empty().push(b[0]) =~= b);
    } else {
        let parts0 = parts.drop_last();
        let b0 = b.drop_last();
        lemma_parts_decode(b0, parts0, lit);
        let t0 = join_def(parts0, seq!['-']);
        let dash = seq!['-'];
        lemma_without_add(t0 + dash, p, '-');
        lemma_without_add(t0, dash, '-');
        lemma_without_all(dash, '-');
        axiom_02x_decode(lit, b[n - 1], without(t0, '-'));
        lemma_without_none(p, '-');
        assert(without(t0, '-') + Seq::<char>::empty() =~= without(t0, '-'));
        assert(b0.push(b[n - 1]) =~= b);
    }
}
/// C15: the text print() returns for a byte string parses back (dashes removed, hex::decode) to that byte string
//# L15-print-parses-back-to-the-bytes: C15
pub proof fn lemma_print_parses_back(b: Seq<u8>, r: Seq<char>, dashes: Seq<char>, lit: Seq<char>, sep: Seq<char>)
    requires
        print_post(b, r, dashes, lit, sep), is_02x_lit(lit), sep == seq!['-'],
        forall|i: int| 0 <= i < dashes.len() ==> dashes[i] == '-',
    ensures hex_decode(without(r, '-')) == Some(b),
{
    broadcast use axiom_decode_empty, axiom_joined_def;
    if b.len() == 0 {
        lemma_without_all(dashes, '-');
        assert(b =~= Seq::<u8>::empty());
    } else {
        let parts = choose|parts: Seq<Seq<char>>| #[trigger] joined(parts, sep) == r && parts.len() == b.len()
            && forall|i: int| 0 <= i < parts.len() ==> #[trigger] parts[i] == fmt_text(lit, seq![byte_text(b[i])]);
        lemma_parts_decode(b, parts, lit);
    }
}
//#end

/// C15: from_str(print(h)) holds the bytes of h - the composition of print's and from_str's postconditions
//# L15-from_str-of-print-is-the-same-bytes: C15
pub proof fn lemma_from_str_of_print(b: Seq<u8>, text: Seq<char>, parsed: Option<Seq<u8>>)
    requires
        hex_decode(without(text, '-')) == Some(b),     // print-text-parses-back-to-the-bytes, text = print(h)@, b = h.view()
        parsed == hex_decode(without(text, '-')),      // from_str-decodes-the-text-without-its-dashes: Some(view of the result) / None = Err
    ensures parsed == Some(b),
{
}
//#end

// neighbours of str::replace (so that a changed body that uses them is judged, not refused): results uninterpreted
pub uninterp spec fn str_fn1<P>(which: int, s: Seq<char>, p: P) -> Seq<char>;
pub uninterp spec fn str_fn0(which: int, s: Seq<char>) -> Seq<char>;
pub uninterp spec fn replacedn<P>(s: Seq<char>, from: P, to: Seq<char>, n: usize) -> Seq<char>;
pub assume_specification<P: core::str::pattern::Pattern>[ str::replacen::<P> ](s: &str, from: P, to: &str, n: usize) -> (r: String)
    ensures r@ == replacedn(s@, from, to@, n);
pub assume_specification<P: core::str::pattern::Pattern>[ str::trim_start_matches::<P> ](s: &str, p: P) -> (r: &str)
    ensures r@ == str_fn1(1, s@, p);
pub assume_specification[ str::trim ](s: &str) -> (r: &str)
    ensures r@ == str_fn0(1, s@);
pub assume_specification[ str::to_uppercase ](s: &str) -> (r: String)
    ensures r@ == str_fn0(2, s@);
pub assume_specification[ str::to_lowercase ](s: &str) -> (r: String)
    ensures r@ == str_fn0(3, s@);
