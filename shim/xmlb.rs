// TRUSTED CONTRACTS for the xml-builder crate as used by src/xml.rs: the element tree that is handed to the builder is
// modelled as the ghost value XNode; what `generate` writes is an uninterpreted function `xml_render` of that tree.
pub struct XNode {
    pub name: Seq<char>,
    pub attrs: Seq<(Seq<char>, Seq<char>)>,
    pub kids: Seq<XNode>,
    pub text: Option<Seq<char>>,
}
pub uninterp spec fn xml_render(root: XNode) -> Seq<u8>;
pub uninterp spec fn utf8_text(bytes: Seq<u8>) -> Seq<char>;

pub mod xml_builder {
    use vstd::prelude::*;
    use super::XNode;
    #[verifier::external_body]
    pub struct XMLError { x: u8 }
    #[verifier::external_body]
    pub struct XMLBuilder { x: u8 }
    #[verifier::external_body]
    pub struct XML { x: u8 }
    #[verifier::external_body]
    pub struct XMLElement { x: u8 }
    pub enum XMLVersion { XML1_0, XML1_1 }

    impl XMLBuilder {
        #[verifier::external_body]
        pub fn new() -> (r: Self) { unimplemented!() }
        #[verifier::external_body]
        pub fn version(self, v: XMLVersion) -> (r: Self) { unimplemented!() }
        #[verifier::external_body]
        pub fn encoding(self, e: String) -> (r: Self) { unimplemented!() }
        #[verifier::external_body]
        pub fn build(self) -> (r: XML) ensures r.root().is_none() { unimplemented!() }
    }
    impl XML {
        pub uninterp spec fn root(&self) -> Option<XNode>;
        #[verifier::external_body]
        pub fn set_root_element(&mut self, e: XMLElement) ensures final(self).root() == Some(e.view()) { unimplemented!() }
        /// writes the document: a function of the element tree (header settings are constants of to_xml)
        #[verifier::external_body]
        pub fn generate(self, w: &mut Vec<u8>) -> (r: Result<(), XMLError>)
            ensures r is Ok && self.root().is_some() ==> final(w)@ == old(w)@ + super::xml_render(self.root().unwrap()),
        { unimplemented!() }
    }
    impl XMLElement {
        pub uninterp spec fn view(&self) -> XNode;
        #[verifier::external_body]
        pub fn new(name: &str) -> (r: Self)
            ensures r.view() == (XNode { name: name@, attrs: Seq::empty(), kids: Seq::empty(), text: None }),
        { unimplemented!() }
        #[verifier::external_body]
        pub fn add_attribute(&mut self, name: &str, value: &str)
            ensures final(self).view() == (XNode { attrs: old(self).view().attrs.push((name@, value@)), ..old(self).view() }),
        { unimplemented!() }
        #[verifier::external_body]
        pub fn add_child(&mut self, c: XMLElement) -> (r: Result<(), XMLError>)
            ensures
                r is Ok ==> final(self).view() == (XNode { kids: old(self).view().kids.push(c.view()), ..old(self).view() }),
        { unimplemented!() }
        #[verifier::external_body]
        pub fn add_text(&mut self, t: String) -> (r: Result<(), XMLError>)
            ensures
                r is Ok ==> final(self).view() == (XNode { text: Some(t@), ..old(self).view() }),
        { unimplemented!() }
    }
    impl From<XMLError> for super::anyhow::Error {
        #[verifier::external_body]
        fn from(e: XMLError) -> (r: super::anyhow::Error) { unimplemented!() }
    }
    impl From<core::str::Utf8Error> for super::anyhow::Error {
        #[verifier::external_body]
        fn from(e: core::str::Utf8Error) -> (r: super::anyhow::Error) { unimplemented!() }
    }
}
