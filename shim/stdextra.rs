// A few std functions this vstd does not specify (so that a changed body that uses them is judged, not refused).
pub assume_specification<T>[ core::mem::replace::<T> ](dest: &mut T, src: T) -> (r: T)
    ensures *final(dest) == src, r == *old(dest);
pub assume_specification<T: Default>[ core::mem::take::<T> ](dest: &mut T) -> (r: T)
    ensures r == *old(dest);
pub assume_specification<T, U, F: FnOnce(T) -> U>[ Option::<T>::map_or::<U, F> ](o: Option<T>, default: U, f: F) -> (r: U)
    requires o matches Some(x) ==> f.requires((x,)),
    ensures match o { Some(x) => f.ensures((x,), r), None => r == default };
pub assume_specification<T, P: FnOnce(&T) -> bool>[ Option::<T>::filter::<P> ](o: Option<T>, p: P) -> (r: Option<T>)
    requires o matches Some(x) ==> p.requires((&x,)),
    ensures match o {
        None => r.is_none(),
        Some(x) => (p.ensures((&x,), true) ==> r == Some(x)) && (p.ensures((&x,), false) ==> r.is_none()) && (r.is_some() ==> r == Some(x)),
    };
/// String::len(): some number (the byte length; nothing is derived from it)
pub assume_specification[ String::len ](s: &String) -> (r: usize);
