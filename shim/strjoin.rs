// <[String]>::join(&str) and core::fmt::Formatter::write_str: TRUSTED CONTRACTS (specified, not verified)
#[verifier::external_trait_specification]
pub trait ExJoin<Separator> {
    type ExternalTraitSpecificationFor: std::slice::Join<Separator>;
    type Output;
    fn join(slice: &Self, sep: Separator) -> Self::Output;
}
/// join: the result is a function of the parts and of the separator
pub uninterp spec fn join_rel<T, Separator, O>(parts: Seq<T>, sep: Separator, r: O) -> bool;
pub uninterp spec fn joined(parts: Seq<Seq<char>>, sep: Seq<char>) -> Seq<char>;
pub assume_specification<T, Separator>[ <[T]>::join ](s: &[T], sep: Separator) -> (r: <[T] as std::slice::Join<Separator>>::Output)
    where [T]: std::slice::Join<Separator>
    ensures join_rel(s@, sep, r);
/// the texts of a sequence of strings
pub open spec fn texts(parts: Seq<String>) -> Seq<Seq<char>> { Seq::new(parts.len(), |i: int| parts[i]@) }
pub broadcast axiom fn axiom_join_strings(parts: Seq<String>, sep: &str, r: String)
    ensures #[trigger] join_rel(parts, sep, r) ==> r@ == joined(texts(parts), sep@);
/// format!("{}", x) is the Display text of x
pub broadcast axiom fn axiom_fmt_identity(x: Seq<char>)
    ensures #[trigger] fmt_text("{}"@, seq![x]) == x;
/// the text written into a Formatter so far
pub uninterp spec fn fmt_out(f: &core::fmt::Formatter<'_>) -> Seq<char>;
/// Formatter::write_str appends the text (when it succeeds)
pub assume_specification<'a>[ core::fmt::Formatter::<'a>::write_str ](f: &mut core::fmt::Formatter<'a>, s: &str) -> (r: core::fmt::Result)
    ensures r is Ok ==> fmt_out(final(f)) == fmt_out(old(f)) + s@;
