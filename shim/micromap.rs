// TRUSTED CONTRACTS (DESIGN.md §3.2): specified, not verified. Audited by bounded Kani harnesses (kani/deps).
pub mod micromap {
    use vstd::prelude::*;
    use vstd::std_specs::iter::IteratorSpec;
    use core::marker::PhantomData;
    #[verifier::external_body]
    #[verifier::accept_recursive_types(K)]
    #[verifier::accept_recursive_types(V)]
    pub struct Map<K, V, const N: usize> { p: PhantomData<(K, V)> }

    #[verifier::external_body]
    #[verifier::accept_recursive_types(K)]
    #[verifier::accept_recursive_types(V)]
    pub struct Iter<'a, K, V> { p: PhantomData<&'a (K, V)> }

    impl<'a, K, V> Iter<'a, K, V> {
        pub uninterp spec fn src(&self) -> Seq<(K, V)>;
        pub uninterp spec fn pos(&self) -> nat;
    }

    pub open spec fn key_index<K, V>(s: Seq<(K, V)>, k: K) -> int
        decreases s.len()
    {
        if s.len() == 0 { -1 } else if s[0].0 == k { 0 } else {
            let r = key_index(s.drop_first(), k);
            if r < 0 { -1 } else { r + 1 }
        }
    }

    impl<K, V, const N: usize> Map<K, V, N> {
        pub uninterp spec fn view(&self) -> Seq<(K, V)>;

        #[verifier::external_body]
        pub fn new() -> (r: Self) ensures r.view() =~= Seq::<(K, V)>::empty() { unimplemented!() }

        #[verifier::external_body]
        pub fn clear(&mut self) ensures final(self).view() =~= Seq::<(K, V)>::empty() { unimplemented!() }

        #[verifier::external_body]
        pub fn len(&self) -> (r: usize) ensures r == self.view().len() { unimplemented!() }

        #[verifier::external_body]
        pub fn is_empty(&self) -> (r: bool) ensures r == (self.view().len() == 0) { unimplemented!() }

        #[verifier::external_body]
        pub fn capacity(&self) -> (r: usize) ensures r == N { unimplemented!() }

        #[verifier::external_body]
        pub fn iter(&self) -> (r: Iter<'_, K, V>)
            ensures
                r.src() == self.view(), r.pos() == 0,
                // the same fact in the vocabulary of vstd's generic iterator model (for callers that see `impl Iterator` only)
                r.obeys_prophetic_iter_laws(), r.remaining().len() == self.view().len(),
                forall|i: int| 0 <= i < self.view().len() ==> *(#[trigger] r.remaining()[i]).0 == self.view()[i].0 && *r.remaining()[i].1 == self.view()[i].1,
        { unimplemented!() }
    }
    /// the pairs live in a fixed array of N slots
    pub broadcast axiom fn axiom_len_le_capacity<K, V, const N: usize>(m: Map<K, V, N>)
        ensures (#[trigger] m.view()).len() <= N;

    impl<K: PartialEq, V, const N: usize> Map<K, V, N> {
        /// swap-remove: the last pair moves into the hole (this is what micromap 0.0.19 does)
        #[verifier::external_body]
        pub fn remove(&mut self, k: &K) -> (r: Option<V>)
            ensures
                key_index(old(self).view(), *k) < 0 ==> r.is_none() && final(self).view() == old(self).view(),
                key_index(old(self).view(), *k) >= 0 ==> r == Some(old(self).view()[key_index(old(self).view(), *k)].1)
                    && final(self).view() == (if key_index(old(self).view(), *k) == old(self).view().len() - 1 { old(self).view().drop_last() }
                        else { old(self).view().update(key_index(old(self).view(), *k), old(self).view().last()).drop_last() }),
        { unimplemented!() }

        #[verifier::external_body]
        pub fn get(&self, k: &K) -> (r: Option<&V>)
            ensures
                key_index(self.view(), *k) < 0 ==> r.is_none(),
                key_index(self.view(), *k) >= 0 ==> r == Some(&self.view()[key_index(self.view(), *k)].1),
        { unimplemented!() }

        #[verifier::external_body]
        pub fn contains_key(&self, k: &K) -> (r: bool)
            ensures r == (key_index(self.view(), *k) >= 0),
        { unimplemented!() }

        #[verifier::external_body]
        pub fn insert(&mut self, k: K, v: V) -> (r: Option<V>)
//#ifnot guard
            requires key_index(old(self).view(), k) >= 0 || old(self).view().len() < N,
//#endif
            ensures
//#if guard
                // guard mode (C07): a new key beyond N slots hits the array bounds check (and a debug assertion):
                // returned normally => the key existed or there was a free slot
                key_index(old(self).view(), k) >= 0 || old(self).view().len() < N,
//#endif
                key_index(old(self).view(), k) >= 0 ==> final(self).view() == old(self).view().update(key_index(old(self).view(), k), (old(self).view()[key_index(old(self).view(), k)].0, v)),
                key_index(old(self).view(), k) < 0 ==> final(self).view() == old(self).view().push((k, v)),
        { unimplemented!() }
    }
    impl<'a, K, V, const N: usize> IntoIterator for &'a Map<K, V, N> {
        type Item = (&'a K, &'a V);
        type IntoIter = Iter<'a, K, V>;
        #[verifier::external_body]
        fn into_iter(self) -> (r: Iter<'a, K, V>) ensures r.src() == self.view(), r.pos() == 0 { unimplemented!() }
    }
    impl<'a, K, V> Iterator for Iter<'a, K, V> {
        type Item = (&'a K, &'a V);
        #[verifier::external_body]
        fn next(&mut self) -> (ret: Option<(&'a K, &'a V)>)
            ensures
                final(self).src() == old(self).src(),
                match ret {
                    Some(kv) => old(self).pos() < old(self).src().len()
                        && *kv.0 == old(self).src()[old(self).pos() as int].0
                        && *kv.1 == old(self).src()[old(self).pos() as int].1
                        && final(self).pos() == old(self).pos() + 1,
                    None => old(self).pos() >= old(self).src().len() && final(self).pos() == old(self).pos(),
                }
        { unimplemented!() }
    }
    impl<'a, K, V> vstd::std_specs::iter::IteratorSpecImpl for Iter<'a, K, V> {
        uninterp spec fn obeys_prophetic_iter_laws(&self) -> bool;
        #[verifier::prophetic]
        uninterp spec fn remaining(&self) -> Seq<(&'a K, &'a V)>;
        #[verifier::prophetic]
        uninterp spec fn will_return_none(&self) -> bool;
        uninterp spec fn decrease(&self) -> Option<nat>;
        uninterp spec fn peek(&self, i: int) -> Option<(&'a K, &'a V)>;
    }

    // ---- itertools `sorted_by_key(|e| e.0)` on the pair iterator: the pairs in the order of their keys ----
    /// the pairs of s in ascending key order (keys are distinct, so this is a function of s); the order on K is the one
    /// `Ord for K` defines and is not modelled further
    pub uninterp spec fn sorted_pairs<K, V>(s: Seq<(K, V)>) -> Seq<(K, V)>;
    /// sorting permutes
    pub broadcast axiom fn axiom_sorted_pairs_perm<K, V>(s: Seq<(K, V)>)
        ensures (#[trigger] sorted_pairs(s)).to_multiset() == s.to_multiset(), sorted_pairs(s).len() == s.len();
    /// with distinct keys the sorted order does not depend on the order the pairs were inserted in
    pub broadcast axiom fn axiom_sorted_pairs_canonical<K, V>(s: Seq<(K, V)>, t: Seq<(K, V)>)
        requires
            s.to_multiset() == t.to_multiset(),
            forall|i: int, j: int| 0 <= i < j < s.len() ==> s[i].0 != s[j].0,
        ensures #[trigger] sorted_pairs(s) == #[trigger] sorted_pairs(t);
    /// "o is the key k" for whatever type the key function returns; for `&K` it means `*o == *k`
    pub uninterp spec fn key_is<KK, K>(o: KK, k: &K) -> bool;
    pub broadcast axiom fn axiom_key_is_ref<'a, K>(o: &'a K, k: &'a K)
        ensures #[trigger] key_is::<&'a K, K>(o, k) == (*o == *k);
    impl<'a, K: Ord, V> Iter<'a, K, V> {
        #[verifier::external_body]
        pub fn sorted_by_key<KK: Ord, F: FnMut(&(&'a K, &'a V)) -> KK>(self, f: F) -> (r: std::vec::IntoIter<(&'a K, &'a V)>)
            requires self.pos() == 0,
            ensures
                r.obeys_prophetic_iter_laws(),
                // provided the key function is the projection on the key
                (forall|k: &'a K, v: &'a V, o: KK| #[trigger] f.ensures((&(k, v),), o) ==> key_is(o, k)) ==> {
                    &&& r.remaining().len() == self.src().len()
                    &&& forall|i: int| 0 <= i < self.src().len() ==> *(#[trigger] r.remaining()[i]).0 == sorted_pairs(self.src())[i].0 && *r.remaining()[i].1 == sorted_pairs(self.src())[i].1
                },
        { unimplemented!() }
    }
    impl<'a, K: Ord, V: Ord> Iter<'a, K, V> {
        /// itertools `sorted()` on the pair iterator: the pairs in the order of `Ord for (&K, &V)`, which - the keys of a
        /// map being distinct - is the order of their keys
        #[verifier::external_body]
        pub fn sorted(self) -> (r: std::vec::IntoIter<(&'a K, &'a V)>)
            requires self.pos() == 0,
            ensures
                r.obeys_prophetic_iter_laws(),
                r.remaining().len() == self.src().len(),
                forall|i: int| 0 <= i < self.src().len() ==> *(#[trigger] r.remaining()[i]).0 == sorted_pairs(self.src())[i].0 && *r.remaining()[i].1 == sorted_pairs(self.src())[i].1,
        { unimplemented!() }
    }
    // ---- std `map(f).collect::<Vec<_>>()` on the pair iterator (inherent shim methods: vstd's generic adapter model
    // does not work inside functions with generic parameters, and every graph function has the const parameter N) ----
    /// the collection `collect()` builds: a Vec (the only one the graph code collects into)
    pub trait IsVecOf<B> { spec fn items(&self) -> Seq<B>; }
    impl<B> IsVecOf<B> for Vec<B> { open spec fn items(&self) -> Seq<B> { self@ } }
    #[verifier::external_body]
    #[verifier::accept_recursive_types(K)]
    #[verifier::accept_recursive_types(V)]
    #[verifier::accept_recursive_types(B)]
    #[verifier::accept_recursive_types(F)]
    pub struct MapIter<'a, K, V, B, F> { p: PhantomData<(&'a (K, V), B, F)> }
    impl<'a, K, V, B, F> MapIter<'a, K, V, B, F> {
        pub uninterp spec fn src(&self) -> Seq<(K, V)>;
        pub uninterp spec fn f(&self) -> F;
    }
    impl<'a, K, V> Iter<'a, K, V> {
        #[verifier::external_body]
        pub fn map<B, F: FnMut((&'a K, &'a V)) -> B>(self, f: F) -> (r: MapIter<'a, K, V, B, F>)
            requires
                self.pos() == 0,
                forall|i: int| 0 <= i < self.src().len() ==> f.requires(((&(#[trigger] self.src()[i]).0, &self.src()[i].1),)),
            ensures r.src() == self.src(), r.f() == f,
        { unimplemented!() }
    }
    impl<'a, K, V, B, F: FnMut((&'a K, &'a V)) -> B> MapIter<'a, K, V, B, F> {
        /// the result lists f(pair) for every pair, in iteration (= stored) order
        #[verifier::external_body]
        pub fn collect<C: IsVecOf<B>>(self) -> (r: C)
            ensures
                r.items().len() == self.src().len(),
                forall|k: int| #![trigger r.items()[k]] #![trigger self.src()[k]] 0 <= k < self.src().len() ==> self.f().ensures(((&self.src()[k].0, &self.src()[k].1),), r.items()[k]),
        { unimplemented!() }
    }
    impl<K: Clone, V: Clone, const N: usize> Clone for Map<K, V, N> {
        #[verifier::external_body]
        fn clone(&self) -> (r: Self) ensures r.view() == self.view() { unimplemented!() }
    }
}
