// std string / iterator functions used by src/label.rs: TRUSTED CONTRACTS (specified, not verified). Each states what the
// Rust documentation of the function says, over vstd's `str` view (`s@: Seq<char>`) and vstd's prophetic iterator model.

#[verifier::external_type_specification]
#[verifier::external_body]
pub struct ExParseIntError(core::num::ParseIntError);
/// the `?` on a ParseIntError converts it into the (opaque) anyhow error
impl From<core::num::ParseIntError> for anyhow::Error {
    #[verifier::external_body]
    fn from(e: core::num::ParseIntError) -> Self { unimplemented!() }
}

/// str::starts_with(pattern); for a `char` pattern: the first character is that character
pub uninterp spec fn starts_with_spec<P>(s: Seq<char>, p: P) -> bool;
pub assume_specification<P: core::str::pattern::Pattern>[ str::starts_with::<P> ](s: &str, p: P) -> (r: bool)
    ensures r == starts_with_spec(s@, p);
pub broadcast axiom fn axiom_starts_with_char(s: Seq<char>, c: char)
    ensures #[trigger] starts_with_spec(s, c) == (s.len() > 0 && s[0] == c);

/// str::parse::<F>(): F::from_str of the text; for usize an uninterpreted partial function of the text
pub uninterp spec fn parse_rel<F>(t: Seq<char>, r: Option<F>) -> bool;
pub assume_specification<F: core::str::FromStr>[ str::parse::<F> ](s: &str) -> (r: Result<F, F::Err>)
    ensures parse_rel::<F>(s@, match r { Ok(x) => Some(x), Err(_) => None });
pub uninterp spec fn usize_parse(t: Seq<char>) -> Option<usize>;
pub broadcast axiom fn axiom_parse_usize(t: Seq<char>, r: Option<usize>)
    ensures #[trigger] parse_rel::<usize>(t, r) ==> r == usize_parse(t);
/// Display for usize writes the canonical decimal numeral (non-empty, digits only) and usize::from_str reads it back
pub broadcast axiom fn axiom_dec_text(n: usize)
    ensures
        (#[trigger] dec_text(n)).len() >= 1,
        forall|i: int| 0 <= i < dec_text(n).len() ==> '0' <= #[trigger] dec_text(n)[i] <= '9',
        usize_parse(dec_text(n)) == Some(n);
/// Display for char writes the character
pub broadcast axiom fn axiom_char_text(c: char)
    ensures #[trigger] char_text(c) == seq![c];

/// Chars::count(): the number of characters left
pub assume_specification<'a>[ <core::str::Chars<'a> as Iterator>::count ](it: core::str::Chars<'a>) -> (r: usize)
    ensures r == it.remaining().len();
/// String: FromIterator<char> / FromIterator<&char>: the characters in iteration order
pub broadcast axiom fn axiom_string_from_chars(s: Seq<char>, r: String)
    ensures #[trigger] <String as FromIteratorSpec<char>>::from_iter_ensures(s, r) ==> r@ == s;
pub broadcast axiom fn axiom_string_from_char_refs<'a>(s: Seq<&'a char>, r: String)
    ensures #[trigger] <String as FromIteratorSpec<&'a char>>::from_iter_ensures(s, r) ==> r@ == derefs(s);

/// Iterator::enumerate() (T13 wrapper: a provided trait method cannot take a specification in this Verus) and
/// Enumerate::next(): pairs the items with their positions, counted from 0
#[verifier::external_type_specification]
#[verifier::external_body]
#[verifier::accept_recursive_types(I)]
pub struct ExEnumerate<I>(core::iter::Enumerate<I>);
/// the items of the underlying iterator when enumerate() was called, and how many of them have been yielded
pub uninterp spec fn enum_src<I: Iterator>(e: core::iter::Enumerate<I>) -> Seq<I::Item>;
pub uninterp spec fn enum_pos<I: Iterator>(e: core::iter::Enumerate<I>) -> nat;
pub trait WEnumerate: Iterator + Sized { fn __w_enumerate(self) -> core::iter::Enumerate<Self>; }
impl<I: Iterator> WEnumerate for I {
    #[verifier::external_body]
    fn __w_enumerate(self) -> (r: core::iter::Enumerate<Self>)
        ensures enum_src(r) == self.remaining(), enum_pos(r) == 0
    { self.enumerate() }
}
pub assume_specification<I: Iterator>[ <core::iter::Enumerate<I> as Iterator>::next ](e: &mut core::iter::Enumerate<I>) -> (r: Option<(usize, I::Item)>)
    ensures
        enum_src(*final(e)) == enum_src(*old(e)),
        match r {
            Some(p) => enum_pos(*old(e)) < enum_src(*old(e)).len() && p.0 == enum_pos(*old(e)) && p.1 == enum_src(*old(e))[enum_pos(*old(e)) as int]
                && enum_pos(*final(e)) == enum_pos(*old(e)) + 1,
            None => enum_pos(*old(e)) >= enum_src(*old(e)).len() && enum_pos(*final(e)) == enum_pos(*old(e)),
        };

/// str::len() (T13 wrapper: this vstd's specification of str::len says nothing about non-ASCII text): the length of the
/// UTF-8 encoding in bytes (vstd::utf8::encode_utf8 is vstd's definition of that encoding)
pub trait WLen { fn __w_len(&self) -> usize; }
impl WLen for str {
    #[verifier::external_body]
    fn __w_len(&self) -> (r: usize) ensures r == vstd::utf8::encode_utf8(self@).len() { self.len() }
}
/// (the same method name on an array or a vector of characters is the number of elements)
impl<const M: usize> WLen for [char; M] {
    #[verifier::external_body]
    fn __w_len(&self) -> (r: usize) ensures r == M { self.len() }
}
impl WLen for Vec<char> {
    #[verifier::external_body]
    fn __w_len(&self) -> (r: usize) ensures r == self@.len() { self.len() }
}
impl WLen for String {
    #[verifier::external_body]
    fn __w_len(&self) -> (r: usize) ensures r == vstd::utf8::encode_utf8(self@).len() { self.len() }
}

/// Iterator::filter() on a slice iterator (T13 wrapper: this vstd's model of Filter does not say which items remain): the
/// items the predicate accepts, in order; the predicate answers for every item
pub trait WFilter: Iterator + Sized {
    fn __w_filter<P: FnMut(&Self::Item) -> bool>(self, p: P) -> core::iter::Filter<Self, P>
        requires forall|x: Self::Item| p.requires((&x,));
}
impl<'a> WFilter for core::slice::Iter<'a, char> {
    #[verifier::external_body]
    fn __w_filter<P: FnMut(&&'a char) -> bool>(self, p: P) -> (r: core::iter::Filter<Self, P>)
        ensures r.obeys_prophetic_iter_laws(),
            r.remaining() == self.remaining().filter(|x: &'a char| p.ensures((&x,), true)),
            forall|i: int| 0 <= i < self.remaining().len() ==> p.ensures((&#[trigger] self.remaining()[i],), true) || p.ensures((&self.remaining()[i],), false),
    { self.filter(p) }
}

/// format!: a literal that is a brace-free prefix followed by one `{name}` placeholder yields the prefix followed by the
/// Display text of the argument
pub open spec fn ident_char(c: char) -> bool { c == '_' || ('a' <= c <= 'z') || ('A' <= c <= 'Z') || ('0' <= c <= '9') }
pub open spec fn one_slot_after(lit: Seq<char>, p: Seq<char>) -> bool {
    lit.len() >= p.len() + 2 && (forall|i: int| 0 <= i < p.len() ==> lit[i] == p[i]) && lit[p.len() as int] == '{' && lit[lit.len() - 1] == '}'
    && (forall|i: int| 0 <= i < p.len() ==> p[i] != '{' && p[i] != '}')
    && (forall|i: int| p.len() < i < lit.len() - 1 ==> ident_char(#[trigger] lit[i]))
}
pub axiom fn axiom_fmt_one_slot(lit: Seq<char>, p: Seq<char>, x: Seq<char>)
    requires one_slot_after(lit, p),
    ensures fmt_text(lit, seq![x]) == p + x;
