// TRUSTED CONTRACTS (DESIGN.md §3.2): specified, not verified. Audited by bounded Kani harnesses (kani/deps).
pub mod microstack {
    use vstd::prelude::*;
    use core::marker::PhantomData;
    #[verifier::external_body]
    #[verifier::accept_recursive_types(V)]
    pub struct Stack<V: Copy, const N: usize> { p: PhantomData<V> }

    #[verifier::external_body]
    #[verifier::accept_recursive_types(V)]
    pub struct IntoIter<'a, V: Copy, const N: usize> { p: PhantomData<&'a V> }

    impl<'a, V: Copy, const N: usize> IntoIter<'a, V, N> {
        pub uninterp spec fn src(&self) -> Seq<V>;
        pub uninterp spec fn pos(&self) -> nat;
    }

    impl<V: Copy, const N: usize> Stack<V, N> {
        pub uninterp spec fn view(&self) -> Seq<V>;

        #[verifier::external_body]
        pub fn new() -> (r: Self) ensures r.view() =~= Seq::<V>::empty() { unimplemented!() }

        #[verifier::external_body]
        pub fn from_vec(v: Vec<V>) -> (r: Self) requires v@.len() <= N, ensures r.view() == v@ { unimplemented!() }

        #[verifier::external_body]
        pub fn is_empty(&self) -> (r: bool) ensures r == (self.view().len() == 0) { unimplemented!() }

        #[verifier::external_body]
        pub fn len(&self) -> (r: usize) ensures r == self.view().len() { unimplemented!() }

        #[verifier::external_body]
        pub fn clear(&mut self) ensures final(self).view() =~= Seq::<V>::empty() { unimplemented!() }

        #[verifier::external_body]
        pub fn push(&mut self, v: V)
//#ifnot guard
            requires old(self).view().len() < N,
//#endif
            ensures
//#if guard
                // guard mode (C07): push asserts `next < N` in every build: returned normally => there was room
                old(self).view().len() < N,
//#endif
                final(self).view() == old(self).view().push(v),
        { unimplemented!() }

        /// Ok and pushed when there is room, Err and unchanged otherwise (never panics)
        #[verifier::external_body]
        pub fn try_push(&mut self, v: V) -> (r: Result<(), String>)
            ensures
                old(self).view().len() < N ==> r.is_ok() && final(self).view() == old(self).view().push(v),
                old(self).view().len() >= N ==> r.is_err() && final(self).view() == old(self).view(),
        { unimplemented!() }

        #[verifier::external_body]
        pub fn pop(&mut self) -> (r: V)
            requires old(self).view().len() > 0,
            ensures r == old(self).view().last(), final(self).view() == old(self).view().drop_last(),
        { unimplemented!() }

        #[verifier::external_body]
        pub fn capacity(&mut self) -> (r: usize)
            ensures r == N, final(self).view() == old(self).view(),
        { unimplemented!() }

        #[verifier::external_body]
        pub fn into_iter(&self) -> (r: IntoIter<'_, V, N>)
            ensures r.src() == self.view(), r.pos() == 0,
        { unimplemented!() }
    }
    impl<'a, V: Copy, const N: usize> Iterator for IntoIter<'a, V, N> {
        type Item = V;
        #[verifier::external_body]
        fn next(&mut self) -> (ret: Option<V>)
            ensures
                final(self).src() == old(self).src(),
                match ret {
                    Some(x) => old(self).pos() < old(self).src().len() && x == old(self).src()[old(self).pos() as int] && final(self).pos() == old(self).pos() + 1,
                    None => old(self).pos() >= old(self).src().len() && final(self).pos() == old(self).pos(),
                }
        { unimplemented!() }
    }
    impl<'a, V: Copy, const N: usize> vstd::std_specs::iter::IteratorSpecImpl for IntoIter<'a, V, N> {
        uninterp spec fn obeys_prophetic_iter_laws(&self) -> bool;
        #[verifier::prophetic]
        uninterp spec fn remaining(&self) -> Seq<V>;
        #[verifier::prophetic]
        uninterp spec fn will_return_none(&self) -> bool;
        uninterp spec fn decrease(&self) -> Option<nat>;
        uninterp spec fn peek(&self, i: int) -> Option<V>;
    }
    // ---- std `map(f).collect::<Vec<_>>()` on the member iterator (inherent shim methods, see shim/micromap.rs) ----
    pub trait IsVecOf<B> { spec fn items(&self) -> Seq<B>; }
    impl<B> IsVecOf<B> for Vec<B> { open spec fn items(&self) -> Seq<B> { self@ } }
    #[verifier::external_body]
    #[verifier::accept_recursive_types(V)]
    #[verifier::accept_recursive_types(B)]
    #[verifier::accept_recursive_types(F)]
    pub struct MapIter<'a, V: Copy, B, F, const N: usize> { p: PhantomData<(&'a V, B, F)> }
    impl<'a, V: Copy, B, F, const N: usize> MapIter<'a, V, B, F, N> {
        pub uninterp spec fn src(&self) -> Seq<V>;
        pub uninterp spec fn f(&self) -> F;
    }
    impl<'a, V: Copy, const N: usize> IntoIter<'a, V, N> {
        #[verifier::external_body]
        pub fn map<B, F: FnMut(V) -> B>(self, f: F) -> (r: MapIter<'a, V, B, F, N>)
            requires
                self.pos() == 0,
                forall|i: int| 0 <= i < self.src().len() ==> f.requires((#[trigger] self.src()[i],)),
            ensures r.src() == self.src(), r.f() == f,
        { unimplemented!() }
    }
    impl<'a, V: Copy, B, F: FnMut(V) -> B, const N: usize> MapIter<'a, V, B, F, N> {
        /// the result lists f(member) for every member, in iteration (= stored) order
        #[verifier::external_body]
        pub fn collect<C: IsVecOf<B>>(self) -> (r: C)
            ensures
                r.items().len() == self.src().len(),
                forall|k: int| #![trigger r.items()[k]] #![trigger self.src()[k]] 0 <= k < self.src().len() ==> self.f().ensures((self.src()[k],), r.items()[k]),
        { unimplemented!() }
    }
    impl<V: Copy, const N: usize> Clone for Stack<V, N> {
        #[verifier::external_body]
        fn clone(&self) -> (r: Self) ensures r.view() == self.view() { unimplemented!() }
    }
}

