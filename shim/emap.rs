// TRUSTED CONTRACTS (DESIGN.md §3.2): specified, not verified. Audited by bounded Kani harnesses (kani/deps).
pub mod emap {
    use vstd::prelude::*;
    use vstd::std_specs::iter::IteratorSpec;
    use core::marker::PhantomData;

    /// the collection `collect()` builds: a Vec (the only one the graph code collects into)
    pub trait IsVecOf<B> { spec fn items(&self) -> Seq<B>; }
    impl<B> IsVecOf<B> for Vec<B> { open spec fn items(&self) -> Seq<B> { self@ } }

    #[verifier::external_body]
    #[verifier::accept_recursive_types(V)]
    pub struct Map<V> { p: PhantomData<V> }

    #[verifier::external_body]
    #[verifier::accept_recursive_types(V)]
    pub struct IterMut<'a, V> { p: PhantomData<&'a mut V> }

    #[verifier::external_body]
    #[verifier::accept_recursive_types(V)]
    pub struct Iter<'a, V> { p: PhantomData<&'a V> }

    impl<V> Map<V> {
        pub uninterp spec fn view(&self) -> Seq<Option<V>>;
    }
    impl<'a, V> IterMut<'a, V> {
        pub uninterp spec fn src(&self) -> Seq<Option<V>>;
        pub uninterp spec fn pos(&self) -> nat;
        #[verifier::prophetic]
        pub uninterp spec fn fin(&self) -> Seq<Option<V>>;
    }
    impl<'a, V> Iter<'a, V> {
        pub uninterp spec fn src(&self) -> Seq<Option<V>>;
        pub uninterp spec fn pos(&self) -> nat;
    }

    impl<V: Clone> Map<V> {
        #[verifier::external_body]
        pub fn with_capacity_some(cap: usize, v: V) -> (r: Self)
            ensures r.view().len() == cap, forall|i: int| 0 <= i < cap ==> (#[trigger] r.view()[i]) == Some(v),
        { unimplemented!() }

        #[verifier::external_body]
        pub fn capacity(&self) -> (r: usize) ensures r == self.view().len() { unimplemented!() }

        #[verifier::external_body]
        pub fn get(&self, k: usize) -> (r: Option<&V>)
//#ifnot guard
            requires k < self.view().len(),
//#endif
            ensures
//#if guard
                // guard mode (C07): with debug assertions the call panics unless the key is in range, i.e.
                // "returned normally => k < capacity" (audited against the real crate: kani/deps)
                k < self.view().len(),
//#endif
                r == (match self.view()[k as int] { Some(v) => Some(&v), None => None::<&V> }),
        { unimplemented!() }

        #[verifier::external_body]
        pub fn get_mut(&mut self, k: usize) -> (r: Option<&mut V>)
//#ifnot guard
            requires k < old(self).view().len(),
//#endif
            ensures
//#if guard
                k < old(self).view().len(),
//#endif
                match r {
                    Some(m) => old(self).view()[k as int] == Some(*m)
                        && final(self).view() == old(self).view().update(k as int, Some(*final(m))),
                    None => old(self).view()[k as int].is_none() && final(self).view() == old(self).view(),
                }
        { unimplemented!() }

        #[verifier::external_body]
        pub fn contains_key(&self, k: usize) -> (r: bool)
            requires k < self.view().len(),
            ensures r == self.view()[k as int].is_some(),
        { unimplemented!() }

        #[verifier::external_body]
        pub fn remove(&mut self, k: usize)
            requires k < old(self).view().len(),
            ensures final(self).view() == old(self).view().update(k as int, None),
        { unimplemented!() }

        #[verifier::external_body]
        pub fn insert(&mut self, k: usize, v: V)
//#ifnot guard
            requires k < old(self).view().len(),
//#endif
            ensures
//#if guard
                k < old(self).view().len(),
//#endif
                final(self).view() == old(self).view().update(k as int, Some(v)),
        { unimplemented!() }

        #[verifier::external_body]
        pub fn iter(&self) -> (r: Iter<'_, V>)
            requires forall|i: int| 0 <= i < self.view().len() ==> (#[trigger] self.view()[i]).is_some(),
            ensures r.src() == self.view(), r.pos() == 0,
        { unimplemented!() }

        #[verifier::external_body]
        pub fn iter_mut(&mut self) -> (r: IterMut<'_, V>)
            requires forall|i: int| 0 <= i < old(self).view().len() ==> (#[trigger] old(self).view()[i]).is_some(),
            ensures
                r.src() == old(self).view(),
                r.pos() == 0,
                r.fin() == final(self).view(),
                r.fin().len() == r.src().len(),
        { unimplemented!() }
    }

    pub broadcast axiom fn axiom_itermut_resolved<'a, V: Clone + 'a>(it: IterMut<'a, V>)
        ensures
            #[trigger] has_resolved(it) ==> forall|i: int| it.pos() <= i < it.src().len() ==> #[trigger] it.fin()[i] == it.src()[i];

    impl<'a, V: Clone + 'a> Iterator for IterMut<'a, V> {
        type Item = (usize, &'a mut V);
        #[verifier::external_body]
        fn next(&mut self) -> (ret: Option<Self::Item>)
            ensures
                final(self).src() == old(self).src(),
                final(self).fin() == old(self).fin(),
                match ret {
                    Some(km) => old(self).pos() < old(self).src().len()
                        && km.0 == old(self).pos()
                        && final(self).pos() == old(self).pos() + 1
                        && Some(*km.1) == old(self).src()[km.0 as int]
                        && Some(*final(km.1)) == old(self).fin()[km.0 as int],
                    None => old(self).pos() >= old(self).src().len() && final(self).pos() == old(self).pos(),
                }
        { unimplemented!() }
    }
    impl<'a, V: Clone + 'a> vstd::std_specs::iter::IteratorSpecImpl for IterMut<'a, V> {
        uninterp spec fn obeys_prophetic_iter_laws(&self) -> bool;
        #[verifier::prophetic]
        uninterp spec fn remaining(&self) -> Seq<(usize, &'a mut V)>;
        #[verifier::prophetic]
        uninterp spec fn will_return_none(&self) -> bool;
        uninterp spec fn decrease(&self) -> Option<nat>;
        uninterp spec fn peek(&self, i: int) -> Option<(usize, &'a mut V)>;
    }
    impl<'a, V: Clone + 'a> Iter<'a, V> {
        /// std's `Iterator::find` as instantiated for this iterator (inherent, so that it can carry a contract):
        /// the first remaining element the predicate accepts; everything before it was rejected
        #[verifier::external_body]
        pub fn find<P: FnMut(&(usize, &'a V)) -> bool>(&mut self, pred: P) -> (r: Option<(usize, &'a V)>)
            requires
                forall|i: int| old(self).pos() <= i < old(self).src().len() ==> (#[trigger] old(self).src()[i]).is_some(),
                forall|i: int| old(self).pos() <= i < old(self).src().len() ==>
                    pred.requires((&(i as usize, &(#[trigger] old(self).src()[i]).unwrap()),)),
            ensures
                final(self).src() == old(self).src(),
                match r {
                    Some(kv) => old(self).pos() <= kv.0 < old(self).src().len()
                        && Some(*kv.1) == old(self).src()[kv.0 as int]
                        && final(self).pos() == kv.0 + 1
                        && pred.ensures((&(kv.0, kv.1),), true)
                        && forall|j: int| old(self).pos() <= j < kv.0 ==>
                            pred.ensures((&(j as usize, &(#[trigger] old(self).src()[j]).unwrap()),), false),
                    None => final(self).pos() >= old(self).src().len()
                        && forall|j: int| old(self).pos() <= j < old(self).src().len() ==>
                            pred.ensures((&(j as usize, &(#[trigger] old(self).src()[j]).unwrap()),), false),
                }
        { unimplemented!() }
    }

    // ---- std `Iterator::filter(..).map(..).collect::<Vec<_>>()` as instantiated for this iterator ----
    // (inherent methods on shim types, so that the chain can carry contracts over the closures' own contracts)
    #[verifier::external_body]
    #[verifier::accept_recursive_types(V)]
    #[verifier::accept_recursive_types(P)]
    pub struct Filter<'a, V, P> { p: PhantomData<(&'a V, P)> }

    #[verifier::external_body]
    #[verifier::accept_recursive_types(V)]
    #[verifier::accept_recursive_types(P)]
    #[verifier::accept_recursive_types(F)]
    pub struct FilterMap<'a, V, P, F> { p: PhantomData<(&'a V, P, F)> }

    impl<'a, V, P> Filter<'a, V, P> {
        pub uninterp spec fn src(&self) -> Seq<Option<V>>;
        pub uninterp spec fn pred(&self) -> P;
        /// slots below pos() have been consumed (yielded or rejected)
        pub uninterp spec fn pos(&self) -> nat;
    }
    impl<'a, V, P, F> FilterMap<'a, V, P, F> {
        pub uninterp spec fn src(&self) -> Seq<Option<V>>;
        pub uninterp spec fn pred(&self) -> P;
        pub uninterp spec fn f(&self) -> F;
        /// the positions the filter lets through, in iteration order (a Skolem function of the chain)
        pub uninterp spec fn picked(&self) -> Seq<int>;
    }

    impl<'a, V: Clone + 'a> Iter<'a, V> {
        #[verifier::external_body]
        pub fn filter<P: FnMut(&(usize, &'a V)) -> bool>(self, pred: P) -> (r: Filter<'a, V, P>)
            requires
                self.pos() == 0,
                forall|i: int| 0 <= i < self.src().len() ==> (#[trigger] self.src()[i]).is_some(),
                forall|i: int| 0 <= i < self.src().len() ==> pred.requires((&(i as usize, &(#[trigger] self.src()[i]).unwrap()),)),
            ensures r.src() == self.src(), r.pred() == pred, r.pos() == 0,
        { unimplemented!() }
    }

    /// std `Filter::next`: the next slot the predicate accepts; every slot skipped on the way was rejected
    impl<'a, V: Clone + 'a, P: FnMut(&(usize, &'a V)) -> bool> Iterator for Filter<'a, V, P> {
        type Item = (usize, &'a V);
        #[verifier::external_body]
        fn next(&mut self) -> (ret: Option<Self::Item>)
            ensures
                final(self).src() == old(self).src(),
                final(self).pred() == old(self).pred(),
                match ret {
                    Some(kv) => old(self).pos() <= kv.0 < old(self).src().len()
                        && Some(*kv.1) == old(self).src()[kv.0 as int]
                        && final(self).pos() == kv.0 + 1
                        && old(self).pred().ensures((&(kv.0, kv.1),), true)
                        && forall|j: int| old(self).pos() <= j < kv.0 ==>
                            old(self).pred().ensures((&(j as usize, &(#[trigger] old(self).src()[j]).unwrap()),), false),
                    None => final(self).pos() >= old(self).src().len()
                        && forall|j: int| old(self).pos() <= j < old(self).src().len() ==>
                            old(self).pred().ensures((&(j as usize, &(#[trigger] old(self).src()[j]).unwrap()),), false),
                }
        { unimplemented!() }
    }
    impl<'a, V: Clone + 'a, P: FnMut(&(usize, &'a V)) -> bool> vstd::std_specs::iter::IteratorSpecImpl for Filter<'a, V, P> {
        uninterp spec fn obeys_prophetic_iter_laws(&self) -> bool;
        #[verifier::prophetic]
        uninterp spec fn remaining(&self) -> Seq<(usize, &'a V)>;
        #[verifier::prophetic]
        uninterp spec fn will_return_none(&self) -> bool;
        uninterp spec fn decrease(&self) -> Option<nat>;
        uninterp spec fn peek(&self, i: int) -> Option<(usize, &'a V)>;
    }

    impl<'a, V: Clone + 'a, P: FnMut(&(usize, &'a V)) -> bool> Filter<'a, V, P> {
        #[verifier::external_body]
        pub fn map<B, F: FnMut((usize, &'a V)) -> B>(self, f: F) -> (r: FilterMap<'a, V, P, F>)
            requires
                forall|i: int| 0 <= i < self.src().len() ==> f.requires(((i as usize, &(#[trigger] self.src()[i]).unwrap()),)),
            ensures r.src() == self.src(), r.pred() == self.pred(), r.f() == f,
        { unimplemented!() }
    }

    impl<'a, V: Clone + 'a, P: FnMut(&(usize, &'a V)) -> bool, F: FnMut((usize, &'a V)) -> usize> FilterMap<'a, V, P, F> {
        /// the result lists f(element) for exactly the elements the predicate accepts, in iteration order
        #[verifier::external_body]
        pub fn collect<C: IsVecOf<usize>>(self) -> (r: C)
            ensures
                r.items().len() == self.picked().len(),
                forall|k: int| 0 <= k < self.picked().len() ==> 0 <= (#[trigger] self.picked()[k]) < self.src().len(),
                forall|k: int, l: int| 0 <= k < l < self.picked().len() ==> self.picked()[k] < self.picked()[l],
                forall|k: int| #![trigger self.picked()[k]] #![trigger r.items()[k]] 0 <= k < self.picked().len() ==> {
                    let i = self.picked()[k];
                    &&& 0 <= i < self.src().len()
                    &&& self.pred().ensures((&(i as usize, &self.src()[i].unwrap()),), true)
                    &&& self.f().ensures(((i as usize, &self.src()[i].unwrap()),), r.items()[k])
                },
                forall|i: int| 0 <= i < self.src().len() && !self.picked().contains(i) ==>
                    self.pred().ensures((&(i as usize, &(#[trigger] self.src()[i]).unwrap()),), false),
        { unimplemented!() }
    }

    impl<'a, V: Clone + 'a> Iterator for Iter<'a, V> {
        type Item = (usize, &'a V);
        #[verifier::external_body]
        fn next(&mut self) -> (ret: Option<Self::Item>)
            ensures
                final(self).src() == old(self).src(),
                match ret {
                    Some(kv) => old(self).pos() < old(self).src().len()
                        && kv.0 == old(self).pos()
                        && final(self).pos() == old(self).pos() + 1
                        && Some(*kv.1) == old(self).src()[kv.0 as int],
                    None => old(self).pos() >= old(self).src().len() && final(self).pos() == old(self).pos(),
                }
        { unimplemented!() }
    }
    impl<'a, V: Clone + 'a> vstd::std_specs::iter::IteratorSpecImpl for Iter<'a, V> {
        uninterp spec fn obeys_prophetic_iter_laws(&self) -> bool;
        #[verifier::prophetic]
        uninterp spec fn remaining(&self) -> Seq<(usize, &'a V)>;
        #[verifier::prophetic]
        uninterp spec fn will_return_none(&self) -> bool;
        uninterp spec fn decrease(&self) -> Option<nat>;
        uninterp spec fn peek(&self, i: int) -> Option<(usize, &'a V)>;
    }

    // ---- itertools `sorted_by_key` as instantiated for this iterator and for its filter (inherent shim methods) ----
    // A stable sort of items whose keys already ascend is the identity; only that case is specified.
    impl<'a, V: Clone + 'a> Iter<'a, V> {
        #[verifier::external_body]
        pub fn sorted_by_key<K: Ord, F: FnMut(&(usize, &'a V)) -> K>(self, f: F) -> (r: std::vec::IntoIter<(usize, &'a V)>)
            requires
                self.pos() == 0,
                forall|i: int| 0 <= i < self.src().len() ==> (#[trigger] self.src()[i]).is_some(),
                forall|i: int| 0 <= i < self.src().len() ==> f.requires((&(i as usize, &(#[trigger] self.src()[i]).unwrap()),)),
            ensures
                r.obeys_prophetic_iter_laws(),
                sorted_keys_ascend(self.src(), f) ==> r.remaining().len() == self.src().len()
                    && forall|i: int| 0 <= i < self.src().len() ==> (#[trigger] r.remaining()[i]).0 == i && Some(*r.remaining()[i].1) == self.src()[i],
        { unimplemented!() }
    }
    /// the keys f assigns to the slots ascend with the slot index
    pub open spec fn sorted_keys_ascend<'a, V, K, F: FnMut(&(usize, &'a V)) -> K>(src: Seq<Option<V>>, f: F) -> bool {
        forall|i: int, k: K| 0 <= i < src.len() && #[trigger] f.ensures((&(i as usize, &src[i].unwrap()),), k) ==> key_rank(k) == i
    }
    /// position of a key in its order (usize keys: the number itself)
    pub uninterp spec fn key_rank<K>(k: K) -> int;
    pub broadcast axiom fn axiom_key_rank_usize(k: usize)
        ensures #[trigger] key_rank::<usize>(k) == k as int;

    impl<'a, V: Clone + 'a, P: FnMut(&(usize, &'a V)) -> bool> Filter<'a, V, P> {
        /// the accepted slots in ascending slot order (their usize keys ascend already)
        #[verifier::external_body]
        pub fn sorted_by_key<K: Ord, F: FnMut(&(usize, &'a V)) -> K>(self, f: F) -> (r: std::vec::IntoIter<(usize, &'a V)>)
            requires
                self.pos() == 0,
                forall|i: int| 0 <= i < self.src().len() ==> (#[trigger] self.src()[i]).is_some(),
                forall|i: int| 0 <= i < self.src().len() ==> f.requires((&(i as usize, &(#[trigger] self.src()[i]).unwrap()),)),
            ensures
                r.obeys_prophetic_iter_laws(),
                sorted_keys_ascend(self.src(), f) ==> {
                    // every item is an accepted slot, with its value
                    &&& forall|k: int| 0 <= k < r.remaining().len() ==> {
                        let i = (#[trigger] r.remaining()[k]).0 as int;
                        &&& 0 <= i < self.src().len() && Some(*r.remaining()[k].1) == self.src()[i]
                        &&& self.pred().ensures((&(i as usize, &self.src()[i].unwrap()),), true)
                    }
                    // in ascending slot order
                    &&& forall|k: int, l: int| 0 <= k < l < r.remaining().len() ==> (#[trigger] r.remaining()[k]).0 < (#[trigger] r.remaining()[l]).0
                    // and a slot that is not among the items was rejected
                    &&& forall|i: int| 0 <= i < self.src().len() && (forall|k: int| 0 <= k < r.remaining().len() ==> (#[trigger] r.remaining()[k]).0 != i) ==>
                        self.pred().ensures((&(i as usize, &(#[trigger] self.src()[i]).unwrap()),), false)
                },
        { unimplemented!() }
    }
    impl<V: Clone> Clone for Map<V> {
        #[verifier::external_body]
        fn clone(&self) -> (r: Self) ensures r.view() == self.view() { unimplemented!() }
    }
}

