// ======================================================================================
// Trace level: from the per-call step relations (proved on the real code in U_ops) to the
// property statements, for every history.  Pure spec/proof; included in U_model only.
// The step relations used here are the ones of model/model.rs, textually the same file that
// U_ops includes, so "the code refines step" and "step implies the property" talk about the
// same definitions.
// ======================================================================================

pub enum Op {
    Add(int),
    Bind(int, int, Label),
    Put(int, Seq<u8>),
    Data(int),
    NextId(int),          // carries the id that was returned
    Query,                // kid / kids / keys / len / clone of another graph: no state change
}

/// one call within the limits and documented preconditions of the property quantifier (n = edge capacity N)
pub closed spec fn step(a: A, a2: A, op: Op, n: int) -> bool {
    match op {
        Op::Add(v) => 0 <= v < a.tag.len() && add_step(a, a2, v),
        Op::Bind(v1, v2, l) => bind_pre(a, v1, v2, l, n) && bind_step(a, a2, v1, v2, l),
        Op::Put(v, d) => present(a, v) && put_step(a, a2, v, d),
        Op::Data(v) => present(a, v) && data_step(a, a2, v),
        Op::NextId(r) => next_id_step(a, a2, r),
        Op::Query => abs_eq(a, a2),
    }
}

/// a history: s[0] --ops[0]--> s[1] --ops[1]--> ...
pub closed spec fn run(s: Seq<A>, ops: Seq<Op>, n: int) -> bool {
    &&& s.len() == ops.len() + 1
    &&& forall|i: int| 0 <= i < ops.len() ==> #[trigger] step(s[i], s[i + 1], ops[i], n)
}

//# L-inv-step: C01 C02 C03 C04 C05 C06
pub proof fn lemma_step_inv(a: A, a2: A, op: Op, n: int)
    requires inv(a), step(a, a2, op, n),
    ensures inv(a2), a2.tag.len() == a.tag.len(),
{
    match op {
        Op::Add(v) => { lemma_edges_ok_add(a, a2, v); lemma_add_inv(a, a2, v); }
        Op::Bind(v1, v2, l) => { lemma_edges_ok_bind(a, a2, v1, v2, l); lemma_bind_inv(a, a2, v1, v2, l, n); }
        Op::Put(v, d) => { lemma_edges_ok_same(a, a2); lemma_put_inv(a, a2, v); }
        Op::Data(v) => { lemma_edges_ok_same(a, a2); lemma_data_inv(a, a2, v); }
        Op::NextId(r) => { lemma_next_id_inv(a, a2, r); }
        Op::Query => {
            assert forall|b: int| 2 <= b < 16 implies #[trigger] group_ok(a2, b) by { assert(group_ok(a, b)); }
            assert forall|u: int| 0 <= u < a2.tag.len() implies #[trigger] in_own_group(a2, u) by { assert(in_own_group(a, u)); }
            assert forall|u: int| 0 <= u < a2.tag.len() implies distinct_keys(#[trigger] a2.edges[u]) by { assert(distinct_keys(a.edges[u])); }
        }
    }
}

/// the invariant holds after every single call of every history that starts in an invariant state
//# L-inv-run: C01 C02 C03 C04 C05 C06
pub proof fn lemma_run_inv(s: Seq<A>, ops: Seq<Op>, n: int, k: int)
    requires run(s, ops, n), inv(s[0]), 0 <= k <= ops.len(),
    ensures inv(s[k]), s[k].tag.len() == s[0].tag.len(),
    decreases k,
{
    if k > 0 {
        lemma_run_inv(s, ops, n, k - 1);
        assert(step(s[k - 1], s[k - 1 + 1], ops[k - 1], n));
        lemma_step_inv(s[k - 1], s[k], ops[k - 1], n);
    }
}

// -------------------------------- C01: GC safety --------------------------------

/// C01 (a): the present set shrinks only by a data() call that reads, for the first time since the put, the
/// datum of a grouped vertex; (b) what it removes is exactly the reader's group; (c) afterwards none of the
/// removed vertices holds an unread datum.
//# L01-only-first-read-removes: C01
pub proof fn lemma_only_data_removes(a: A, a2: A, op: Op, n: int, u: int)
    requires inv(a), step(a, a2, op, n), present(a, u), !present(a2, u),
    ensures
        op is Data,
        is_unread(a.pers[op->Data_0]),                 // a first read since the put
        a.tag[op->Data_0] >= 2,                        // of a vertex that was an endpoint of a bind
        a.tag[u] == a.tag[op->Data_0],                 // u is in the reader's group
        data_collects(a, op->Data_0),
{
    lemma_step_inv(a, a2, op, n);
    match op {
        Op::Add(v) => { assert(a2.tag[u] != 0); }
        Op::Bind(v1, v2, l) => { assert(a2.tag[u] != 0); }
        Op::Put(v, d) => {}
        Op::Data(v) => {}
        Op::NextId(r) => {}
        Op::Query => {}
    }
}

/// C01 (c): no vertex removed by the collecting read holds a datum that was put and not yet read
//# L01-removed-hold-no-unread: C01 C02
pub proof fn lemma_removed_are_read(a: A, a2: A, v: int, u: int)
    requires inv(a), present(a, v), data_step(a, a2, v), data_collects(a, v), 0 <= u < a.tag.len(), a.tag[u] == a.tag[v],
    ensures !is_unread(a2.pers[u]), a2.tag[u] == 0,
{
    let b = a.tag[v];
    assert(group_ok(a, b));
    assert(in_own_group(a, v));
    assert(in_own_group(a, u));
    // after the read the count of the old member list is 0
    lemma_count_flip(a.pers, a2.pers, a.members[b], v as usize);
    lemma_count_zero(a2.pers, a.members[b]);
    let k = choose|k: int| 0 <= k < a.members[b].len() && a.members[b][k] == u as usize;
    assert(!is_unread(a2.pers[a.members[b][k] as int]));
}

/// C01: a vertex that is present and ungrouped (never an endpoint of a bind since it was created) is never removed,
/// and only a bind() naming it as an endpoint can put it into a group.
//# L01-never-bound-survives: C01
pub proof fn lemma_ungrouped_survives(a: A, a2: A, op: Op, n: int, u: int)
    requires inv(a), step(a, a2, op, n), 0 <= u < a.tag.len(), a.tag[u] == 1,
    ensures
        a2.tag[u] != 0,
        a2.tag[u] >= 2 ==> (op is Bind && (op->Bind_0 == u || op->Bind_1 == u)),
{
    match op {
        Op::Add(v) => {}
        Op::Bind(v1, v2, l) => {}
        Op::Put(v, d) => {}
        Op::Data(v) => {}
        Op::NextId(r) => {}
        Op::Query => {}
    }
}

/// C01 "linked through the history of bind calls": two vertices end up in the same group only if they already
/// were, or the call is a bind() whose endpoints connect them (each of the two is an endpoint, or was already in
/// the group of an endpoint). By induction over a history, same group => connected by bind calls.
//# L01-groups-grow-only-by-bind: C01 C02
pub proof fn lemma_same_group_by_bind(a: A, a2: A, op: Op, n: int, u: int, w: int)
    requires inv(a), step(a, a2, op, n), 0 <= u < a.tag.len(), 0 <= w < a.tag.len(), u != w,
        a2.tag[u] >= 2, a2.tag[u] == a2.tag[w],
    ensures
        (a.tag[u] >= 2 && a.tag[u] == a.tag[w]) || (op is Bind && {
            let v1 = op->Bind_0; let v2 = op->Bind_1;
            &&& (u == v1 || u == v2 || (a.tag[u] >= 2 && (a.tag[u] == a.tag[v1] || a.tag[u] == a.tag[v2])))
            &&& (w == v1 || w == v2 || (a.tag[w] >= 2 && (a.tag[w] == a.tag[v1] || a.tag[w] == a.tag[v2])))
        }),
{
    match op {
        Op::Add(v) => {}
        Op::Bind(v1, v2, l) => {
            if a.tag[v1] == 1 && a.tag[v2] == 1 {
                // the new group takes a free slot: nobody else carries that tag
                let b = first_free(a);
                lemma_first_free_props(a.members, 2);
                assert(group_ok(a, b));
                if a.tag[u] == b { assert(in_own_group(a, u)); }
                if a.tag[w] == b { assert(in_own_group(a, w)); }
            }
        }
        Op::Put(v, d) => {}
        Op::Data(v) => {}
        Op::NextId(r) => {}
        Op::Query => {}
    }
}

// -------------------------------- C02: exactness --------------------------------

/// exactly one member unread <=> count == 1 (given v is an unread member)
//# L02-last-unread-iff-counter-one: C02
pub proof fn lemma_last_unread(pers: Seq<Persistence>, ms: Seq<usize>, v: usize)
    requires no_dup(ms), ms.contains(v), is_unread(pers[v as int]), forall|i: int| 0 <= i < ms.len() ==> (#[trigger] ms[i]) < pers.len(),
    ensures (count_unread(pers, ms) == 1) <==> (forall|i: int| 0 <= i < ms.len() && ms[i] != v ==> !is_unread(pers[(#[trigger] ms[i]) as int])),
{
    let p2 = pers.update(v as int, Persistence::Taken);
    lemma_count_flip(pers, p2, ms, v);
    lemma_count_bounds(p2, ms);
    if count_unread(pers, ms) == 1 {
        lemma_count_zero(p2, ms);
        assert forall|i: int| 0 <= i < ms.len() && ms[i] != v implies !is_unread(pers[(#[trigger] ms[i]) as int]) by {
            assert(!is_unread(p2[ms[i] as int]));
        }
    }
    if forall|i: int| 0 <= i < ms.len() && ms[i] != v ==> !is_unread(pers[(#[trigger] ms[i]) as int]) {
        if count_unread(p2, ms) > 0 {
            lemma_count_pos(p2, ms);
            let i = choose|i: int| 0 <= i < ms.len() && is_unread(p2[(#[trigger] ms[i]) as int]);
            assert(false);
        }
    }
}

/// C02: the data() call that reads the LAST unread datum held by members of a group removes all members of
/// that group and nobody else, within that call; any other data() call removes nobody.
//# L02-group-dies-exactly-at-last-read: C02 C01
pub proof fn lemma_exactness(a: A, a2: A, v: int)
    requires inv(a), present(a, v), data_step(a, a2, v),
    ensures
        // "last unread datum of the group is being read"  <=>  the call collects
        ({
            &&& a.tag[v] >= 2
            &&& is_unread(a.pers[v])
            &&& forall|w: int| 0 <= w < a.tag.len() && w != v && a.tag[w] == a.tag[v] ==> !is_unread(#[trigger] a.pers[w])
        }) <==> data_collects(a, v),
        // when it collects: exactly the group goes, everybody else stays
        data_collects(a, v) ==> forall|u: int| 0 <= u < a.tag.len() ==> (#[trigger] a2.tag[u] == 0) == (a.tag[u] == 0 || a.tag[u] == a.tag[v]),
        // when it does not: nobody goes
        !data_collects(a, v) ==> a2.tag =~= a.tag,
{
    let b = a.tag[v];
    if b >= 2 && is_unread(a.pers[v]) {
        assert(group_ok(a, b));
        assert(in_own_group(a, v));
        let ms = a.members[b];
        lemma_last_unread(a.pers, ms, v as usize);
        if data_collects(a, v) {
            assert forall|w: int| 0 <= w < a.tag.len() && w != v && a.tag[w] == a.tag[v] implies !is_unread(#[trigger] a.pers[w]) by {
                assert(in_own_group(a, w));
                let k = choose|k: int| 0 <= k < ms.len() && ms[k] == w as usize;
                assert(!is_unread(a.pers[ms[k] as int]));
            }
        } else if forall|w: int| 0 <= w < a.tag.len() && w != v && a.tag[w] == a.tag[v] ==> !is_unread(#[trigger] a.pers[w]) {
            assert forall|i: int| 0 <= i < ms.len() && ms[i] != v as usize implies !is_unread(a.pers[(#[trigger] ms[i]) as int]) by {
                assert(a.tag[ms[i] as int] == b);
                assert(!is_unread(a.pers[ms[i] as int]));
            }
            assert(false);
        }
    }
}

/// C02: the three join rules of bind()
//# L02-join-rules: C02
pub proof fn lemma_join_rules(a: A, a2: A, v1: int, v2: int, l: Label, n: int)
    requires inv(a), bind_pre(a, v1, v2, l, n), bind_step(a, a2, v1, v2, l),
    ensures
        // two ungrouped vertices form a (fresh) group of exactly these two
        (a.tag[v1] == 1 && a.tag[v2] == 1) ==> (a2.tag[v1] >= 2 && a2.tag[v1] == a2.tag[v2]
            && forall|u: int| 0 <= u < a.tag.len() && u != v1 && u != v2 ==> #[trigger] a2.tag[u] == a.tag[u] && a2.tag[u] != a2.tag[v1]),
        // an ungrouped vertex joins the other's group
        (a.tag[v1] == 1 && a.tag[v2] >= 2) ==> a2.tag =~= a.tag.update(v1, a.tag[v2]),
        (a.tag[v1] >= 2 && a.tag[v2] == 1) ==> a2.tag =~= a.tag.update(v2, a.tag[v1]),
        // two grouped vertices: no group changes
        (a.tag[v1] >= 2 && a.tag[v2] >= 2) ==> a2.tag =~= a.tag && a2.members =~~= a.members && a2.counter =~= a.counter,
        // nobody is removed by a bind
        forall|u: int| 0 <= u < a.tag.len() ==> (#[trigger] a2.tag[u] == 0) == (a.tag[u] == 0),
{
    if a.tag[v1] == 1 && a.tag[v2] == 1 {
        let b = first_free(a);
        lemma_first_free_props(a.members, 2);
        assert(group_ok(a, b));
        assert forall|u: int| 0 <= u < a.tag.len() && u != v1 && u != v2 implies #[trigger] a2.tag[u] == a.tag[u] && a2.tag[u] != a2.tag[v1] by {
            if a.tag[u] == b { assert(in_own_group(a, u)); }
        }
    }
}

// -------------------------------- C03: read back what was written --------------------------------

/// what kid() answers after a bind, for every vertex and label
//# L03-kid-after-bind: C03
pub proof fn lemma_kid_after_bind(a: A, a2: A, v1: int, v2: int, l: Label, n: int, u: int, k: Label)
    requires inv(a), bind_pre(a, v1, v2, l, n), bind_step(a, a2, v1, v2, l), 0 <= u < a.tag.len(),
    ensures
        lookup(a2.edges[u], k) == (if u == v1 && k == l { Some(v2 as usize) } else { lookup(a.edges[u], k) }),
        // an overwrite replaces and keeps its position; a new label is appended: one entry per label
        a2.edges[v1].len() == (if micromap::key_index(a.edges[v1], l) >= 0 { a.edges[v1].len() } else { a.edges[v1].len() + 1 }),
        distinct_keys(a2.edges[u]),
{
    lemma_key_index(a.edges[v1], l);
    lemma_key_index(a.edges[v1], k);
    assert(distinct_keys(a.edges[u]));
    if u == v1 {
        let s = a.edges[v1];
        let s2 = upsert(s, l, v2 as usize);
        lemma_upsert_distinct(s, l, v2 as usize);
        lemma_key_index(s2, k);
        let i = micromap::key_index(s, l);
        let j = micromap::key_index(s, k);
        let j2 = micromap::key_index(s2, k);
        if i >= 0 {
            assert forall|x: int| 0 <= x < s.len() implies (#[trigger] s2[x]).0 == s[x].0 by {}
            if j >= 0 { assert(s2[j].0 == k); if j2 >= 0 { if j2 < j { assert(s[j2].0 == k); } if j < j2 { assert(s2[j].0 == k); } } else { assert(s2[j].0 != k); } }
            else { if j2 >= 0 { assert(s[j2].0 == s2[j2].0); assert(s[j2].0 != k); } }
        } else {
            assert forall|x: int| 0 <= x < s.len() implies (#[trigger] s2[x]) == s[x] by {}
            assert(s2[s.len() as int] == (l, v2 as usize));
            if j >= 0 { assert(s2[j].0 == k); if j2 >= 0 { if j2 < j { assert(s2[j2] == s[j2]); } if j < j2 { assert(s2[j].0 == k); } } else { assert(s2[j].0 != k); } }
            else if k == l { if j2 >= 0 { if j2 < s.len() { assert(s2[j2] == s[j2]); assert(s[j2].0 != k); } } else { assert(s2[s.len() as int].0 != k); } }
            else { if j2 >= 0 { if j2 < s.len() { assert(s2[j2] == s[j2]); assert(s[j2].0 != k); } } }
        }
    }
}

/// edges and data of a vertex change only by bind(v,..) / put(v,..) / add(v) on an absent id: never by calls on
/// other vertices, never by a collection elsewhere, never by a read
//# L03-frame: C03
pub proof fn lemma_edges_data_frame(a: A, a2: A, op: Op, n: int, u: int)
    requires inv(a), step(a, a2, op, n), 0 <= u < a.tag.len(),
    ensures
        a2.edges[u] != a.edges[u] ==> ((op is Bind && op->Bind_0 == u) || (op is Add && op->Add_0 == u && a.tag[u] == 0)),
        a2.data[u] != a.data[u] ==> ((op is Put && op->Put_0 == u) || (op is Add && op->Add_0 == u && a.tag[u] == 0)),
        (op is Put && op->Put_0 == u) ==> a2.data[u] == op->Put_1 && data_result(a2, u) == Some(op->Put_1),
        // a read returns the bytes of the most recent put, on the first and on every later read
        (op is Data && op->Data_0 == u) ==> data_result(a2, u) == data_result(a, u),
{
    match op {
        Op::Add(v) => {}
        Op::Bind(v1, v2, l) => {}
        Op::Put(v, d) => {}
        Op::Data(v) => {}
        Op::NextId(r) => {}
        Op::Query => {}
    }
}

// -------------------------------- C04: add --------------------------------

//# L04-add-blank-or-nothing: C04
pub proof fn lemma_add_blank_or_nothing(a: A, a2: A, v: int)
    requires inv(a), 0 <= v < a.tag.len(), add_step(a, a2, v),
    ensures
        a.tag[v] == 0 ==> present(a2, v) && a2.edges[v].len() == 0 && data_result(a2, v).is_none() && a2.tag[v] == 1,
        a.tag[v] != 0 ==> abs_eq(a, a2),
        forall|u: int| 0 <= u < a.tag.len() && u != v ==> #[trigger] a2.tag[u] == a.tag[u] && a2.edges[u] == a.edges[u] && a2.data[u] == a.data[u] && a2.pers[u] == a.pers[u],
{
}

// -------------------------------- C05: next_id --------------------------------

/// the allocator position never moves backwards, whatever the call
//# L05-position-monotone: C05
pub proof fn lemma_next_v_monotone(a: A, a2: A, op: Op, n: int)
    requires step(a, a2, op, n),
    ensures a2.next_v >= a.next_v, op is NextId ==> a2.next_v > op->NextId_0 >= a.next_v,
{
}

/// every id handed out is absent at that moment, below the capacity, and different from every id handed out
/// earlier on the same graph (or on the graph it was cloned from: clone copies the position, abs_eq)
//# L05-fresh-and-never-repeats: C05
pub proof fn lemma_next_id_never_repeats(s: Seq<A>, ops: Seq<Op>, n: int, i: int, j: int)
    requires run(s, ops, n), inv(s[0]), 0 <= i < j < ops.len(), ops[i] is NextId, ops[j] is NextId,
    ensures
        ops[i]->NextId_0 < ops[j]->NextId_0,
        s[j].tag[ops[j]->NextId_0] == 0,
        0 <= ops[j]->NextId_0 < s[j].tag.len(),
{
    assert(step(s[i], s[i + 1], ops[i], n));
    assert(step(s[j], s[j + 1], ops[j], n));
    lemma_next_v_monotone(s[i], s[i + 1], ops[i], n);
    lemma_next_v_chain(s, ops, n, i + 1, j);
    lemma_run_inv(s, ops, n, j);
}

pub proof fn lemma_next_v_chain(s: Seq<A>, ops: Seq<Op>, n: int, i: int, j: int)
    requires run(s, ops, n), 0 <= i <= j <= ops.len(),
    ensures s[i].next_v <= s[j].next_v,
    decreases j - i,
{
    if i < j {
        lemma_next_v_chain(s, ops, n, i, j - 1);
        assert(step(s[j - 1], s[j - 1 + 1], ops[j - 1], n));
        lemma_next_v_monotone(s[j - 1], s[j], ops[j - 1], n);
    }
}

// -------------------------------- C06: capacity is given back --------------------------------

pub closed spec fn alive_groups_from(members: Seq<Seq<usize>>, k: int) -> int
    decreases 16 - k
{
    if k >= 16 { 0 } else { (if members[k].len() > 0 { 1int } else { 0int }) + alive_groups_from(members, k + 1) }
}

pub proof fn lemma_alive_bound(members: Seq<Seq<usize>>, k: int)
    requires 2 <= k <= 16,
    ensures
        0 <= alive_groups_from(members, k) <= 16 - k,
        first_free_from(members, k) == 16 ==> alive_groups_from(members, k) == 16 - k,
    decreases 16 - k,
{
    if k < 16 { lemma_alive_bound(members, k + 1); }
}

/// C06: with fewer than 14 groups alive there is a free slot, so binding two ungrouped vertices is within bind's
/// precondition no matter how many groups lived and died before; a collected group's slot is free again; and no
/// slot is leaked: a non-empty slot always has present members only.
//# L06-capacity-returns: C06
pub proof fn lemma_capacity_returns(a: A, a2: A, v: int)
    requires inv(a), present(a, v), data_step(a, a2, v), data_collects(a, v),
    ensures
        a2.members[a.tag[v]].len() == 0, a2.counter[a.tag[v]] == 0,
        alive_groups_from(a2.members, 2) == alive_groups_from(a.members, 2) - 1,
{
    let b = a.tag[v];
    assert(in_own_group(a, v));
    lemma_alive_update(a.members, a2.members, 2, b);
}

pub proof fn lemma_alive_update(m: Seq<Seq<usize>>, m2: Seq<Seq<usize>>, k: int, b: int)
    requires 2 <= k <= 16, 2 <= b < 16, m.len() == 16, m2 =~~= m.update(b, Seq::<usize>::empty()), m[b].len() > 0,
    ensures alive_groups_from(m2, k) == alive_groups_from(m, k) - (if k <= b { 1int } else { 0int }),
    decreases 16 - k,
{
    if k < 16 { lemma_alive_update(m, m2, k + 1, b); }
}

//# L06-free-slot-when-fewer-than-14: C06
pub proof fn lemma_free_slot_exists(a: A)
    requires inv(a), alive_groups_from(a.members, 2) < 14,
    ensures first_free(a) < 16,
{
    lemma_alive_bound(a.members, 2);
    lemma_first_free_props(a.members, 2);
}

//# L06-no-leaked-slot: C06 C01
pub proof fn lemma_no_leaked_slot(a: A, b: int)
    requires inv(a), 2 <= b < 16, a.members[b].len() > 0,
    ensures forall|i: int| 0 <= i < a.members[b].len() ==> present(a, (#[trigger] a.members[b][i]) as int),
{
    assert(group_ok(a, b));
}

/// the reserved slots are never handed out
//# L06-reserved-slots: C06 C01
pub proof fn lemma_reserved_never_free(a: A)
    requires inv(a),
    ensures first_free(a) >= 2, a.members[0].len() > 0, a.members[1].len() > 0,
{
    lemma_first_free_props(a.members, 2);
}

// -------------------------------- C10 / C19: the step relations are functions --------------------------------

/// Equal abstract states, same call => equal abstract states and equal answers. The relations mention neither the
/// edge capacity N nor the vertex capacity except through the preconditions (bind_pre's n, ids < tag.len()), so two
/// graphs with equal abstract content behave identically whatever N; this is what C10 (clone) and C19 rest on.
//# L19-steps-are-functions: C10 C19
pub proof fn lemma_steps_functional(a: A, x: A, y: A, op: Op, n1: int, n2: int)
    requires inv(a), step(a, x, op, n1), step(a, y, op, n2),
    ensures abs_eq(x, y),
{
    match op {
        Op::Add(v) => {}
        Op::Bind(v1, v2, l) => {}
        Op::Put(v, d) => {}
        Op::Data(v) => {}
        Op::NextId(r) => {}
        Op::Query => {}
    }
}

/// next_id's answer is determined by the state
//# L19-next-id-determined: C05 C10 C19
pub proof fn lemma_next_id_determined(a: A, x: A, y: A, r1: int, r2: int)
    requires next_id_step(a, x, r1), next_id_step(a, y, r2),
    ensures r1 == r2, abs_eq(x, y),
{
    if r1 < r2 { assert(a.tag[r1] != 0); }
    if r2 < r1 { assert(a.tag[r2] != 0); }
}

// -------------------------------- C13: what slice() presupposes is an invariant --------------------------------

/// the empty graph has no edges, so every edge target is in range
//# L13-targets-in-range-initially: C13
pub proof fn lemma_targets_ok_empty(a: A, cap: int)
    requires 0 <= cap <= usize::MAX, empty_state(a, cap),
    ensures targets_ok(a),
{
}

/// every call keeps "edge targets are ids below the capacity and no vertex points at itself": an edge is only ever
/// created by bind(), whose endpoints are present (hence in range) and distinct
//# L13-targets-stay-in-range: C13
pub proof fn lemma_targets_ok_step(a: A, a2: A, op: Op, n: int)
    requires inv(a), targets_ok(a), step(a, a2, op, n),
    ensures targets_ok(a2),
{
    lemma_step_inv(a, a2, op, n);
    match op {
        Op::Bind(v1, v2, l) => {
            let s = a.edges[v1];
            let s2 = upsert(s, l, v2 as usize);
            lemma_key_index(s, l);
            assert forall|u: int, j: int| 0 <= u < a2.edges.len() && 0 <= j < a2.edges[u].len()
                implies (#[trigger] a2.edges[u][j]).1 < a2.edges.len() && a2.edges[u][j].1 != u by {
                if u == v1 {
                    assert(a2.edges[u] == s2);
                    let i = micromap::key_index(s, l);
                    if i >= 0 {
                        if j != i { assert(s2[j] == s[j]); assert(a.edges[u][j].1 < a.edges.len()); }
                    } else {
                        if j < s.len() { assert(s2[j] == s[j]); assert(a.edges[u][j].1 < a.edges.len()); }
                    }
                } else {
                    assert(a2.edges[u] == a.edges[u]);
                    assert(a.edges[u][j].1 < a.edges.len());
                }
            }
        }
        Op::Add(v) => {
            assert forall|u: int, j: int| 0 <= u < a2.edges.len() && 0 <= j < a2.edges[u].len()
                implies (#[trigger] a2.edges[u][j]).1 < a2.edges.len() && a2.edges[u][j].1 != u by {
                assert(a2.edges[u] == a.edges[u]);
                assert(a.edges[u][j].1 < a.edges.len());
            }
        }
        _ => {
            assert(a2.edges =~= a.edges);
            assert forall|u: int, j: int| 0 <= u < a2.edges.len() && 0 <= j < a2.edges[u].len()
                implies (#[trigger] a2.edges[u][j]).1 < a2.edges.len() && a2.edges[u][j].1 != u by {
                assert(a.edges[u][j].1 < a.edges.len());
            }
        }
    }
}

/// ... hence along every history that starts in the empty graph
//# L13-targets-in-range-always: C13
pub proof fn lemma_targets_ok_run(s: Seq<A>, ops: Seq<Op>, n: int, k: int)
    requires run(s, ops, n), inv(s[0]), targets_ok(s[0]), 0 <= k <= ops.len(),
    ensures targets_ok(s[k]),
    decreases k,
{
    if k > 0 {
        lemma_targets_ok_run(s, ops, n, k - 1);
        lemma_run_inv(s, ops, n, k - 1);
        assert(step(s[k - 1], s[k - 1 + 1], ops[k - 1], n));
        lemma_targets_ok_step(s[k - 1], s[k], ops[k - 1], n);
    }
}
