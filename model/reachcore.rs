// ======================================================================================
// Reachability along accepted edges and what a slice must be (C13).  Pure spec/proof.
// `pf(v, to, label)` is the (deterministic) acceptance predicate of slice_some().
// ======================================================================================

pub type Pf = spec_fn(usize, usize, Label) -> bool;

/// the acceptance predicate handed to slice_some() is total and deterministic
pub closed spec fn pred_ok<F: Fn(usize, usize, Label) -> bool>(p: F) -> bool {
    &&& forall|a: usize, b: usize, c: Label| #[trigger] p.requires((a, b, c))
    &&& forall|a: usize, b: usize, c: Label| !(#[trigger] p.ensures((a, b, c), true) && p.ensures((a, b, c), false))
}

/// pf is the predicate p computes: an edge is accepted iff p cannot answer `false` on it
pub closed spec fn pf_is<F: Fn(usize, usize, Label) -> bool>(p: F, pf: Pf) -> bool {
    forall|a: usize, b: usize, c: Label| #[trigger] pf(a, b, c) == !p.ensures((a, b, c), false)
}

/// every edge target is an id below the capacity, and no vertex points at itself: both are established by
/// bind()'s documented preconditions (endpoints present and distinct) and kept by every call (trace lemma L13)
pub closed spec fn targets_ok(a: A) -> bool {
    forall|u: int, j: int| 0 <= u < a.edges.len() && 0 <= j < a.edges[u].len()
        ==> (#[trigger] a.edges[u][j]).1 < a.edges.len() && a.edges[u][j].1 != u
}

/// there is an accepted edge u --l--> w
pub closed spec fn acc(a: A, pf: Pf, u: usize, w: usize) -> bool {
    u < a.edges.len() && exists|j: int| 0 <= j < a.edges[u as int].len() && (#[trigger] a.edges[u as int][j]).1 == w
        && pf(u, w, a.edges[u as int][j].0)
}

/// p is a path v = p[0] -> p[1] -> ... -> p.last() = w along accepted edges
pub closed spec fn is_path(a: A, pf: Pf, v: usize, w: usize, p: Seq<usize>) -> bool {
    &&& p.len() > 0 && p[0] == v && p[p.len() - 1] == w
    &&& forall|i: int| 0 <= i < p.len() - 1 ==> acc(a, pf, #[trigger] p[i], p[i + 1])
}

pub closed spec fn reachable(a: A, pf: Pf, v: usize, w: usize) -> bool {
    exists|p: Seq<usize>| is_path(a, pf, v, w, p)
}

/// at most k ids are reachable from v
pub closed spec fn reach_bound(a: A, pf: Pf, v: usize, k: int) -> bool {
    exists|s: Set<usize>| s.len() <= k && forall|w: usize| reachable(a, pf, v, w) ==> #[trigger] s.contains(w)
}

pub proof fn lemma_reach_self(a: A, pf: Pf, v: usize)
    ensures reachable(a, pf, v, v),
{
    assert(is_path(a, pf, v, v, seq![v]));
}

pub proof fn lemma_reach_step(a: A, pf: Pf, v: usize, u: usize, w: usize)
    requires reachable(a, pf, v, u), acc(a, pf, u, w),
    ensures reachable(a, pf, v, w),
{
    let p = choose|p: Seq<usize>| is_path(a, pf, v, u, p);
    let q = p.push(w);
    assert forall|i: int| 0 <= i < q.len() - 1 implies acc(a, pf, #[trigger] q[i], q[i + 1]) by {
        if i < p.len() - 1 { assert(q[i] == p[i] && q[i + 1] == p[i + 1]); } else { assert(q[i] == u && q[i + 1] == w); }
    }
    assert(is_path(a, pf, v, w, q));
}

/// a set that contains v and is closed under accepted edges contains every vertex of a path from v
pub proof fn lemma_closed_contains_path(a: A, pf: Pf, d: Set<usize>, p: Seq<usize>, k: int)
    requires
        p.len() > 0, d.contains(p[0]), 0 <= k < p.len(),
        forall|x: usize, y: usize| d.contains(x) && #[trigger] acc(a, pf, x, y) ==> d.contains(y),
        forall|i: int| 0 <= i < p.len() - 1 ==> acc(a, pf, #[trigger] p[i], p[i + 1]),
    ensures d.contains(p[k]),
    decreases k,
{
    if k > 0 {
        lemma_closed_contains_path(a, pf, d, p, k - 1);
        assert(acc(a, pf, p[k - 1], p[k - 1 + 1]));
    }
}

/// ... hence everything reachable from v
pub proof fn lemma_closed_contains_reach(a: A, pf: Pf, v: usize, d: Set<usize>, w: usize)
    requires
        d.contains(v),
        forall|x: usize, y: usize| d.contains(x) && #[trigger] acc(a, pf, x, y) ==> d.contains(y),
        reachable(a, pf, v, w),
    ensures d.contains(w),
{
    let p = choose|p: Seq<usize>| is_path(a, pf, v, w, p);
    lemma_closed_contains_path(a, pf, d, p, p.len() - 1);
}

/// a set of ids all below n is finite and has at most n elements
pub proof fn lemma_bounded_set(s: Set<usize>, n: nat)
    requires forall|x: usize| s.contains(x) ==> x < n,
    ensures s.len() <= n,
    decreases n,
{
    if n == 0 {
        assert(s =~= Set::<usize>::empty());
    } else {
        let m = (n - 1) as usize;
        let t = s.remove(m);
        assert forall|x: usize| t.contains(x) implies x < n - 1 by { assert(s.contains(x)); }
        lemma_bounded_set(t, (n - 1) as nat);
        if s.contains(m) {
            assert(s =~= t.insert(m));
        } else {
            assert(s =~= t);
        }
    }
}

/// a duplicate-free list whose entries all lie in a finite set is no longer than the set is large
pub proof fn lemma_nodup_len(ms: Seq<usize>, t: Set<usize>)
    requires no_dup(ms), forall|i: int| 0 <= i < ms.len() ==> t.contains(#[trigger] ms[i]),
    ensures ms.len() <= t.len(),
    decreases ms.len(),
{
    if ms.len() > 0 {
        let l = ms.last();
        let r = ms.drop_last();
        assert(ms[ms.len() - 1] == l);
        assert forall|i: int| 0 <= i < r.len() implies t.remove(l).contains(#[trigger] r[i]) by {
            assert(r[i] == ms[i]);
            assert(ms[i] != ms[ms.len() - 1]);
        }
        assert(no_dup(r)) by {
            assert forall|i: int, j: int| 0 <= i < j < r.len() implies r[i] != r[j] by { assert(r[i] == ms[i] && r[j] == ms[j]); }
        }
        lemma_nodup_len(r, t.remove(l));
    }
}

/// the predicate that accepts every edge (slice(), merge())
pub closed spec fn pf_all() -> Pf { |a: usize, b: usize, c: Label| true }

/// an accepted edge u -> w in front of a path from w
pub proof fn lemma_reach_prepend(a: A, pf: Pf, u: usize, w: usize, k: usize)
    requires acc(a, pf, u, w), reachable(a, pf, w, k),
    ensures reachable(a, pf, u, k),
{
    let p = choose|p: Seq<usize>| is_path(a, pf, w, k, p);
    let q = seq![u] + p;
    assert forall|i: int| 0 <= i < q.len() - 1 implies acc(a, pf, #[trigger] q[i], q[i + 1]) by {
        if i == 0 { assert(q[0] == u && q[1] == p[0]); } else { assert(q[i] == p[i - 1] && q[i + 1] == p[i - 1 + 1]); }
    }
    assert(q[q.len() - 1] == p[p.len() - 1]);
    assert(is_path(a, pf, u, k, q));
}
