// (the reachability core - paths, reachable, closed sets, bounded sets - is in model/reachcore.rs)
//@include model/reachcore.rs

// -------------------------------- the slice --------------------------------

/// What slice_some(v, p) must return (C13), in the words of the property and no stronger: the present ids are
/// exactly the ids reachable from v along accepted edges (under their original ids); every accepted edge out of a
/// kept vertex is in the slice; and the slice has no edge that the source lacks.
pub closed spec fn is_slice(src: A, pf: Pf, v: usize, g: A) -> bool {
    &&& g.tag.len() == src.tag.len()
    &&& forall|w: int| 0 <= w < g.tag.len() ==> (#[trigger] present(g, w) <==> reachable(src, pf, v, w as usize))
    &&& forall|u: int, j: int| 0 <= u < g.tag.len() && 0 <= j < src.edges[u].len() && reachable(src, pf, v, u as usize)
            && pf(u as usize, (#[trigger] src.edges[u][j]).1, src.edges[u][j].0) ==> g.edges[u].contains(src.edges[u][j])
    &&& forall|u: int, i: int| 0 <= u < g.tag.len() && 0 <= i < g.edges[u].len() ==> src.edges[u].contains(#[trigger] g.edges[u][i])
}

// -------------------------------- the work-list of slice_some (first loop) --------------------------------

/// invariant of the work-list: `done` = discovered, `todo` = queued, `proc` = fully expanded, `pend` = the batch
/// drained from `todo` that is being expanded (its head is the vertex in work)
pub closed spec fn wl_inv(a: A, pf: Pf, v0: usize, done: Set<usize>, todo: Set<usize>, proc: Set<usize>, pend: Seq<usize>) -> bool {
    &&& forall|x: usize| #[trigger] todo.contains(x) ==> x < a.edges.len() && reachable(a, pf, v0, x) && !proc.contains(x) && !pend.contains(x)
    &&& forall|x: usize| #[trigger] done.contains(x) ==> x < a.edges.len() && reachable(a, pf, v0, x) && (todo.contains(x) || proc.contains(x) || pend.contains(x))
    &&& forall|i: int| 0 <= i < pend.len() ==> (#[trigger] pend[i]) < a.edges.len() && reachable(a, pf, v0, pend[i]) && !proc.contains(pend[i])
    &&& no_dup(pend)
    &&& forall|x: usize| #[trigger] proc.contains(x) ==> done.contains(x)
    &&& forall|x: usize, y: usize| proc.contains(x) && #[trigger] acc(a, pf, x, y) ==> done.contains(y)
    &&& (done.contains(v0) || todo.contains(v0) || pend.contains(v0))
}

/// the batch in work was discovered earlier (it is in `done`), except for the very first batch [v0]
pub closed spec fn wl_h(done: Set<usize>, pend: Seq<usize>) -> bool {
    (forall|i: int| 0 <= i < pend.len() ==> done.contains(#[trigger] pend[i])) || pend.len() == 1
}

/// between batches: everything queued was discovered earlier, except at the very start
pub closed spec fn wl_h0(v0: usize, done: Set<usize>, todo: Set<usize>) -> bool {
    (forall|x: usize| #[trigger] todo.contains(x) ==> done.contains(x)) || (forall|x: usize| #[trigger] todo.contains(x) ==> x == v0)
}

pub proof fn lemma_wl_init(a: A, pf: Pf, v0: usize)
    requires v0 < a.edges.len(),
    ensures
        wl_inv(a, pf, v0, Set::<usize>::empty(), Set::<usize>::empty().insert(v0), Set::<usize>::empty(), Seq::<usize>::empty()),
        wl_h0(v0, Set::<usize>::empty(), Set::<usize>::empty().insert(v0)),
{
    lemma_reach_self(a, pf, v0);
}

/// draining `todo` into the batch `b` (each queued id exactly once)
pub proof fn lemma_wl_drain(a: A, pf: Pf, v0: usize, done: Set<usize>, todo: Set<usize>, proc: Set<usize>, b: Seq<usize>)
    requires
        wl_inv(a, pf, v0, done, todo, proc, Seq::<usize>::empty()), wl_h0(v0, done, todo),
        forall|x: usize| #![trigger todo.contains(x)] #![trigger b.contains(x)] todo.contains(x) <==> b.contains(x),
        forall|i: int, j: int| 0 <= i < j < b.len() ==> b[i] != b[j],
    ensures
        wl_inv(a, pf, v0, done, Set::<usize>::empty(), proc, b), wl_h(done, b),
{
    assert forall|i: int| 0 <= i < b.len() implies (#[trigger] b[i]) < a.edges.len() && reachable(a, pf, v0, b[i]) && !proc.contains(b[i]) by {
        assert(b.contains(b[i]));
    }
    if !(forall|x: usize| todo.contains(x) ==> done.contains(x)) {
        // the very first batch: everything queued is v0, and the batch has no duplicates
        if b.len() >= 2 {
            assert(b.contains(b[0]) && b.contains(b[1]));
            assert(b[0] == v0 && b[1] == v0);
        }
        if b.len() == 0 {
            let x = choose|x: usize| todo.contains(x) && !done.contains(x);
            assert(b.contains(x));
        }
    } else {
        assert forall|i: int| 0 <= i < b.len() implies done.contains(#[trigger] b[i]) by { assert(b.contains(b[i])); }
    }
}

/// the head of the batch is marked done
pub proof fn lemma_wl_start_item(a: A, pf: Pf, v0: usize, done: Set<usize>, todo: Set<usize>, proc: Set<usize>, pend: Seq<usize>)
    requires wl_inv(a, pf, v0, done, todo, proc, pend), wl_h(done, pend), pend.len() > 0,
    ensures
        wl_inv(a, pf, v0, done.insert(pend[0]), todo, proc, pend),
        forall|i: int| 0 <= i < pend.len() ==> done.insert(pend[0]).contains(#[trigger] pend[i]),
        pend[0] < a.edges.len(),
{
    assert(pend.contains(pend[0]));
}

/// a new id w is discovered over an accepted edge from the vertex in work
pub proof fn lemma_wl_discover(a: A, pf: Pf, v0: usize, done: Set<usize>, todo: Set<usize>, proc: Set<usize>, pend: Seq<usize>, w: usize)
    requires
        wl_inv(a, pf, v0, done, todo, proc, pend), pend.len() > 0, targets_ok(a),
        forall|i: int| 0 <= i < pend.len() ==> done.contains(#[trigger] pend[i]),
        acc(a, pf, pend[0], w), !done.contains(w),
    ensures
        wl_inv(a, pf, v0, done.insert(w), todo.insert(w), proc, pend),
        forall|i: int| 0 <= i < pend.len() ==> done.insert(w).contains(#[trigger] pend[i]),
{
    let x = pend[0];
    lemma_reach_step(a, pf, v0, x, w);
    let j = choose|j: int| 0 <= j < a.edges[x as int].len() && (#[trigger] a.edges[x as int][j]).1 == w && pf(x, w, a.edges[x as int][j].0);
    assert(a.edges[x as int][j].1 < a.edges.len());
    assert(!pend.contains(w)) by {
        if pend.contains(w) { let i = choose|i: int| 0 <= i < pend.len() && pend[i] == w; assert(done.contains(pend[i])); }
    }
}

/// the vertex in work has been expanded: every accepted successor is in `done`
pub proof fn lemma_wl_finish_item(a: A, pf: Pf, v0: usize, done: Set<usize>, todo: Set<usize>, proc: Set<usize>, pend: Seq<usize>)
    requires
        wl_inv(a, pf, v0, done, todo, proc, pend), pend.len() > 0,
        forall|i: int| 0 <= i < pend.len() ==> done.contains(#[trigger] pend[i]),
        forall|y: usize| #[trigger] acc(a, pf, pend[0], y) ==> done.contains(y),
    ensures
        wl_inv(a, pf, v0, done, todo, proc.insert(pend[0]), pend.drop_first()),
        wl_h(done, pend.drop_first()),
        !proc.contains(pend[0]),
{
    let x = pend[0];
    let r = pend.drop_first();
    assert(pend.contains(x));
    assert forall|i: int| 0 <= i < r.len() implies (#[trigger] r[i]) < a.edges.len() && reachable(a, pf, v0, r[i]) && !proc.insert(x).contains(r[i]) && done.contains(r[i]) by {
        assert(r[i] == pend[i + 1]);
        assert(pend[0] != pend[i + 1]);
    }
    assert(no_dup(r)) by {
        assert forall|i: int, j: int| 0 <= i < j < r.len() implies r[i] != r[j] by { assert(r[i] == pend[i + 1] && r[j] == pend[j + 1]); }
    }
    assert forall|y: usize| pend.contains(y) implies y == x || r.contains(y) by {
        let i = choose|i: int| 0 <= i < pend.len() && pend[i] == y;
        if i > 0 { assert(r[i - 1] == pend[i]); }
    }
    assert forall|y: usize| r.contains(y) implies pend.contains(y) by {
        let i = choose|i: int| 0 <= i < r.len() && r[i] == y;
        assert(pend[i + 1] == r[i]);
    }
}

/// the work-list is exhausted: `done` is exactly the reachable set
pub proof fn lemma_wl_done(a: A, pf: Pf, v0: usize, done: Set<usize>, todo: Set<usize>, proc: Set<usize>)
    requires wl_inv(a, pf, v0, done, todo, proc, Seq::<usize>::empty()), forall|x: usize| !todo.contains(x),
    ensures forall|w: usize| done.contains(w) <==> reachable(a, pf, v0, w),
{
    assert(!Seq::<usize>::empty().contains(v0));
    assert forall|x: usize| done.contains(x) implies proc.contains(x) by { assert(!Seq::<usize>::empty().contains(x)); }
    assert forall|w: usize| reachable(a, pf, v0, w) implies done.contains(w) by {
        lemma_closed_contains_reach(a, pf, v0, done, w);
    }
}

/// `proc` holds ids below the capacity only, so it cannot outgrow it (termination measure of the work-list)
pub proof fn lemma_wl_proc_bound(a: A, pf: Pf, v0: usize, done: Set<usize>, todo: Set<usize>, proc: Set<usize>, pend: Seq<usize>)
    requires wl_inv(a, pf, v0, done, todo, proc, pend),
    ensures proc.len() <= a.edges.len(),
{
    lemma_bounded_set(proc, a.edges.len());
}

// -------------------------------- the rebuild of slice_some (second loop) --------------------------------

pub closed spec fn sl_dims(src: A, g: A) -> bool {
    g.tag.len() == src.tag.len() && g.edges.len() == src.tag.len() && src.edges.len() == src.tag.len() && src.tag.len() <= usize::MAX
}

/// the first j source edges of u that are accepted and lead to a kept vertex are in g
pub closed spec fn has_accepted(se: Seq<(Label, usize)>, d: Set<usize>, pf: Pf, ge: Seq<(Label, usize)>, u: int, j: int) -> bool {
    forall|x: int| 0 <= x < j && x < se.len() && d.contains((#[trigger] se[x]).1) && pf(u as usize, se[x].1, se[x].0) ==> ge.contains(se[x])
}

/// every edge of u in g is one of the first j source edges of u
pub closed spec fn only_source(se: Seq<(Label, usize)>, ge: Seq<(Label, usize)>, j: int) -> bool {
    forall|i: int| 0 <= i < ge.len() ==> from_first(se, j, #[trigger] ge[i])
}

/// e is one of the first j entries of se
pub closed spec fn from_first(se: Seq<(Label, usize)>, j: int, e: (Label, usize)) -> bool {
    exists|x: int| 0 <= x < j && x < se.len() && #[trigger] se[x] == e
}

/// more source edges considered: still only source edges
pub proof fn lemma_only_source_mono(se: Seq<(Label, usize)>, ge: Seq<(Label, usize)>, j: int, j2: int)
    requires only_source(se, ge, j), j <= j2,
    ensures only_source(se, ge, j2),
{
    assert forall|i: int| 0 <= i < ge.len() implies from_first(se, j2, #[trigger] ge[i]) by {
        assert(from_first(se, j, ge[i]));
        let x = choose|x: int| 0 <= x < j && x < se.len() && #[trigger] se[x] == ge[i];
        assert(0 <= x < j2 && x < se.len() && se[x] == ge[i]);
    }
}

/// source edge j appended
pub proof fn lemma_only_source_push(se: Seq<(Label, usize)>, ge: Seq<(Label, usize)>, j: int)
    requires only_source(se, ge, j), 0 <= j < se.len(),
    ensures only_source(se, ge.push(se[j]), j + 1),
{
    let ge2 = ge.push(se[j]);
    assert forall|i: int| 0 <= i < ge2.len() implies from_first(se, j + 1, #[trigger] ge2[i]) by {
        if i < ge.len() {
            assert(ge2[i] == ge[i]);
            assert(from_first(se, j, ge[i]));
            let x = choose|x: int| 0 <= x < j && x < se.len() && #[trigger] se[x] == ge[i];
            assert(0 <= x < j + 1 && x < se.len() && se[x] == ge2[i]);
        } else {
            assert(0 <= j < j + 1 && j < se.len() && se[j] == ge2[i]);
        }
    }
}

/// source edge j is not copied: fine when its target is not kept or it is not accepted
pub proof fn lemma_has_accepted_skip(se: Seq<(Label, usize)>, d: Set<usize>, pf: Pf, ge: Seq<(Label, usize)>, u: int, j: int)
    requires has_accepted(se, d, pf, ge, u, j), 0 <= j < se.len(), !d.contains(se[j].1) || !pf(u as usize, se[j].1, se[j].0),
    ensures has_accepted(se, d, pf, ge, u, j + 1),
{
    assert forall|x: int| 0 <= x < j + 1 && x < se.len() && d.contains((#[trigger] se[x]).1) && pf(u as usize, se[x].1, se[x].0) implies ge.contains(se[x]) by {
        assert(x < j);
    }
}

/// source edge j appended
pub proof fn lemma_has_accepted_push(se: Seq<(Label, usize)>, d: Set<usize>, pf: Pf, ge: Seq<(Label, usize)>, u: int, j: int)
    requires has_accepted(se, d, pf, ge, u, j), 0 <= j < se.len(),
    ensures has_accepted(se, d, pf, ge.push(se[j]), u, j + 1),
{
    let ge2 = ge.push(se[j]);
    assert forall|x: int| 0 <= x < j + 1 && x < se.len() && d.contains((#[trigger] se[x]).1) && pf(u as usize, se[x].1, se[x].0) implies ge2.contains(se[x]) by {
        if x < j {
            assert(ge.contains(se[x]));
            let i = choose|i: int| 0 <= i < ge.len() && ge[i] == se[x];
            assert(ge2[i] == se[x]);
        } else {
            assert(ge2[ge.len() as int] == se[x]);
        }
    }
}

/// the label of source edge j does not occur among edges copied from the first j source edges
pub proof fn lemma_fresh_label(se: Seq<(Label, usize)>, ge: Seq<(Label, usize)>, j: int)
    requires 0 <= j < se.len(), distinct_keys(se), only_source(se, ge, j),
    ensures micromap::key_index(ge, se[j].0) < 0,
{
    lemma_key_index(ge, se[j].0);
    let i = micromap::key_index(ge, se[j].0);
    if i >= 0 {
        assert(from_first(se, j, ge[i]));
        let x = choose|x: int| 0 <= x < j && x < se.len() && #[trigger] se[x] == ge[i];
        assert(se[x].0 != se[j].0);
    }
}

/// every present vertex of g is kept
pub closed spec fn sl_present_in(g: A, d: Set<usize>) -> bool {
    forall|u: int| 0 <= u < g.tag.len() && #[trigger] present(g, u) ==> d.contains(u as usize)
}
/// kept ids below n are present in g and have all their accepted edges to kept vertices
pub closed spec fn sl_done_below(src: A, d: Set<usize>, pf: Pf, g: A, n: int) -> bool {
    forall|u: int| 0 <= u < n && u < g.tag.len() && d.contains(u as usize) ==> #[trigger] present(g, u) && has_accepted(src.edges[u], d, pf, g.edges[u], u, src.edges[u].len() as int)
}
/// every vertex other than x has source edges only
pub closed spec fn sl_only_source_except(src: A, g: A, x: int) -> bool {
    forall|u: int| #![trigger g.edges[u]] 0 <= u < g.tag.len() && u != x ==> only_source(src.edges[u], g.edges[u], src.edges[u].len() as int)
}
/// ids from n on have no edges yet
pub closed spec fn sl_empty_from(g: A, n: int) -> bool {
    forall|u: int| n <= u < g.tag.len() ==> #[trigger] g.edges[u] == Seq::<(Label, usize)>::empty()
}

/// between two kept vertices: ids below `upto` are finished, ids from `upto` on have no edges yet
pub closed spec fn sl_inv(src: A, d: Set<usize>, pf: Pf, g: A, upto: int) -> bool {
    &&& sl_dims(src, g)
    &&& sl_present_in(g, d)
    &&& sl_done_below(src, d, pf, g, upto)
    &&& sl_only_source_except(src, g, -1)
    &&& sl_empty_from(g, upto)
}

/// inside kept vertex v1, after j of its source edges
pub closed spec fn sl_mid(src: A, d: Set<usize>, pf: Pf, g: A, v1: int, j: int) -> bool {
    &&& sl_dims(src, g)
    &&& 0 <= v1 < g.tag.len() && 0 <= j <= src.edges[v1].len()
    &&& d.contains(v1 as usize)
    &&& sl_present_in(g, d)
    &&& sl_done_below(src, d, pf, g, v1)
    &&& present(g, v1) && has_accepted(src.edges[v1], d, pf, g.edges[v1], v1, j) && only_source(src.edges[v1], g.edges[v1], j) && g.edges[v1].len() <= j
    &&& sl_only_source_except(src, g, v1)
    &&& sl_empty_from(g, v1 + 1)
}

/// g3 has the same present ids as g2 and the same edge lists except (possibly) at x
pub closed spec fn sl_frame(g2: A, g3: A, x: int) -> bool {
    &&& g3.tag.len() == g2.tag.len() && g3.edges.len() == g2.edges.len()
    &&& forall|u: int| 0 <= u < g2.tag.len() ==> (#[trigger] present(g3, u) <==> present(g2, u))
    &&& forall|u: int| 0 <= u < g2.edges.len() && u != x ==> (#[trigger] g3.edges[u]) == g2.edges[u]
}

pub proof fn lemma_frame_present_in(g2: A, g3: A, d: Set<usize>, x: int)
    requires sl_frame(g2, g3, x), sl_present_in(g2, d),
    ensures sl_present_in(g3, d),
{
    assert forall|u: int| 0 <= u < g3.tag.len() && #[trigger] present(g3, u) implies d.contains(u as usize) by {
        assert(present(g2, u));
    }
}

pub proof fn lemma_frame_done_below(src: A, d: Set<usize>, pf: Pf, g2: A, g3: A, n: int, x: int)
    requires sl_frame(g2, g3, x), sl_done_below(src, d, pf, g2, n), x >= n || x < 0, g2.edges.len() == g2.tag.len(),
    ensures sl_done_below(src, d, pf, g3, n),
{
    assert forall|u: int| 0 <= u < n && u < g3.tag.len() && d.contains(u as usize) implies #[trigger] present(g3, u) && has_accepted(src.edges[u], d, pf, g3.edges[u], u, src.edges[u].len() as int) by {
        assert(present(g2, u));
        assert(has_accepted(src.edges[u], d, pf, g2.edges[u], u, src.edges[u].len() as int));
        assert(g3.edges[u] == g2.edges[u]);
    }
}

pub proof fn lemma_frame_only_source(src: A, g2: A, g3: A, x: int, y: int)
    requires sl_frame(g2, g3, x), sl_only_source_except(src, g2, y), x == y || x < 0, g2.edges.len() == g2.tag.len(),
    ensures sl_only_source_except(src, g3, y),
{
    assert forall|u: int| #![trigger g3.edges[u]] 0 <= u < g3.tag.len() && u != y implies only_source(src.edges[u], g3.edges[u], src.edges[u].len() as int) by {
        assert(g3.edges[u] == g2.edges[u]);
        assert(only_source(src.edges[u], g2.edges[u], src.edges[u].len() as int));
    }
}

pub proof fn lemma_frame_empty_from(g2: A, g3: A, n: int, x: int)
    requires sl_frame(g2, g3, x), sl_empty_from(g2, n), x < n, 0 <= n, g2.edges.len() == g2.tag.len(),
    ensures sl_empty_from(g3, n),
{
    assert forall|u: int| n <= u < g3.tag.len() implies #[trigger] g3.edges[u] == Seq::<(Label, usize)>::empty() by {
        assert(g3.edges[u] == g2.edges[u]);
        assert(g2.edges[u] == Seq::<(Label, usize)>::empty());
    }
}

/// add(w) on a vertex whose edge list is already empty (or which is present) changes no edge list
pub proof fn lemma_add_frame(g: A, g2: A, w: int, d: Set<usize>)
    requires
        0 <= w < g.tag.len(), g.edges.len() == g.tag.len(), add_content(g, g2, w), add_tags(g, g2, w),
        g.tag[w] == 0 ==> g.edges[w] == Seq::<(Label, usize)>::empty(),
    ensures
        g2.edges =~= g.edges, g2.tag.len() == g.tag.len(), g2.edges.len() == g.edges.len(), present(g2, w),
        forall|u: int| 0 <= u < g.tag.len() && u != w ==> (#[trigger] present(g2, u) <==> present(g, u)),
{
}

pub proof fn lemma_sl_init(src: A, d: Set<usize>, pf: Pf, g: A)
    requires empty_graph(g, src.tag.len() as int), src.edges.len() == src.tag.len(), src.tag.len() <= usize::MAX,
    ensures sl_inv(src, d, pf, g, 0),
{
    assert forall|u: int| #![trigger g.edges[u]] 0 <= u < g.tag.len() && u != -1 implies only_source(src.edges[u], g.edges[u], src.edges[u].len() as int) by {
        assert(g.edges[u] == Seq::<(Label, usize)>::empty());
    }
    assert(sl_only_source_except(src, g, -1));
    assert(sl_present_in(g, d));
    assert(sl_done_below(src, d, pf, g, 0));
    assert(sl_empty_from(g, 0));
}

/// the filter skipped the ids in [upto, v1) (not kept) and yields the kept id v1, which is then added
pub proof fn lemma_sl_enter(src: A, d: Set<usize>, pf: Pf, g: A, g2: A, upto: int, v1: int)
    requires
        sl_inv(src, d, pf, g, upto), 0 <= upto <= v1 < g.tag.len(), d.contains(v1 as usize),
        forall|u: usize| upto <= u < v1 ==> !d.contains(u),
        add_content(g, g2, v1), add_tags(g, g2, v1),
    ensures sl_mid(src, d, pf, g2, v1, 0),
{
    assert(g.edges[v1] == Seq::<(Label, usize)>::empty());
    lemma_add_frame(g, g2, v1, d);
    // present ids: the old ones plus v1, which is kept
    assert(sl_present_in(g2, d)) by {
        assert forall|u: int| 0 <= u < g2.tag.len() && #[trigger] present(g2, u) implies d.contains(u as usize) by {
            if u != v1 { assert(present(g, u)); }
        }
    }
    // kept ids below v1 are below upto (the filter skipped [upto, v1))
    assert(sl_done_below(src, d, pf, g2, v1)) by {
        assert forall|u: int| 0 <= u < v1 && u < g2.tag.len() && d.contains(u as usize) implies #[trigger] present(g2, u) && has_accepted(src.edges[u], d, pf, g2.edges[u], u, src.edges[u].len() as int) by {
            assert(u < upto) by { if u >= upto { assert(!d.contains(u as usize)); } }
            assert(present(g, u));
            assert(has_accepted(src.edges[u], d, pf, g.edges[u], u, src.edges[u].len() as int));
        }
    }
    assert(sl_only_source_except(src, g2, v1)) by {
        assert forall|u: int| #![trigger g2.edges[u]] 0 <= u < g2.tag.len() && u != v1 implies only_source(src.edges[u], g2.edges[u], src.edges[u].len() as int) by {
            assert(g.edges[u] == g2.edges[u]);
            assert(only_source(src.edges[u], g.edges[u], src.edges[u].len() as int));
        }
    }
    assert(sl_empty_from(g2, v1 + 1)) by {
        assert forall|u: int| v1 + 1 <= u < g2.tag.len() implies #[trigger] g2.edges[u] == Seq::<(Label, usize)>::empty() by {
            assert(g.edges[u] == Seq::<(Label, usize)>::empty());
        }
    }
    assert(has_accepted(src.edges[v1], d, pf, g2.edges[v1], v1, 0));
    assert(only_source(src.edges[v1], g2.edges[v1], 0)) by { assert(g2.edges[v1].len() == 0); }
}

/// source edge j of v1 is not copied; allowed when its target is not kept or the edge is not accepted
pub proof fn lemma_sl_skip(src: A, d: Set<usize>, pf: Pf, g: A, v1: int, j: int)
    requires
        sl_mid(src, d, pf, g, v1, j), j < src.edges[v1].len(),
        !d.contains(src.edges[v1][j].1) || !pf(v1 as usize, src.edges[v1][j].1, src.edges[v1][j].0),
    ensures sl_mid(src, d, pf, g, v1, j + 1),
{
    lemma_only_source_mono(src.edges[v1], g.edges[v1], j, j + 1);
    lemma_has_accepted_skip(src.edges[v1], d, pf, g.edges[v1], v1, j);
}

/// a source edge (k, v2) of v1 whose target is kept, first half: add(v2)
pub proof fn lemma_sl_add_target(src: A, d: Set<usize>, pf: Pf, g: A, g2: A, v1: int, j: int)
    requires
        sl_mid(src, d, pf, g, v1, j), j < src.edges[v1].len(), d.contains(src.edges[v1][j].1),
        (src.edges[v1][j].1 as int) < g.tag.len(), src.edges[v1][j].1 as int != v1,
        add_content(g, g2, src.edges[v1][j].1 as int), add_tags(g, g2, src.edges[v1][j].1 as int),
    ensures sl_mid(src, d, pf, g2, v1, j), present(g2, src.edges[v1][j].1 as int),
{
    let v2 = src.edges[v1][j].1 as int;
    // add(v2): either nothing, or v2 becomes present with the empty edge list it already had
    // (a kept id below v1 is present already; an id above v1 has no edges yet)
    assert(g.tag[v2] == 0 ==> g.edges[v2] == Seq::<(Label, usize)>::empty()) by {
        if g.tag[v2] == 0 {
            if v2 < v1 { assert(!present(g, v2)); assert(sl_done_below(src, d, pf, g, v1)); assert(false); }
            assert(sl_empty_from(g, v1 + 1));
        }
    }
    lemma_add_frame(g, g2, v2, d);
    assert(sl_present_in(g2, d)) by {
        assert forall|u: int| 0 <= u < g2.tag.len() && #[trigger] present(g2, u) implies d.contains(u as usize) by {
            if u != v2 { assert(present(g, u)); }
        }
    }
    assert(sl_done_below(src, d, pf, g2, v1)) by {
        assert forall|u: int| 0 <= u < v1 && u < g2.tag.len() && d.contains(u as usize) implies #[trigger] present(g2, u) && has_accepted(src.edges[u], d, pf, g2.edges[u], u, src.edges[u].len() as int) by {
            assert(present(g, u));
            assert(has_accepted(src.edges[u], d, pf, g.edges[u], u, src.edges[u].len() as int));
        }
    }
    assert(sl_only_source_except(src, g2, v1)) by {
        assert forall|u: int| #![trigger g2.edges[u]] 0 <= u < g2.tag.len() && u != v1 implies only_source(src.edges[u], g2.edges[u], src.edges[u].len() as int) by {
            assert(g.edges[u] == g2.edges[u]);
            assert(only_source(src.edges[u], g.edges[u], src.edges[u].len() as int));
        }
    }
    assert(sl_empty_from(g2, v1 + 1)) by {
        assert forall|u: int| v1 + 1 <= u < g2.tag.len() implies #[trigger] g2.edges[u] == Seq::<(Label, usize)>::empty() by {
            assert(g.edges[u] == Seq::<(Label, usize)>::empty());
        }
    }
    assert(present(g, v1));
    assert(g2.edges[v1] == g.edges[v1]);
}

/// second half: bind(v1, v2, k) appends the edge (its label is new among the copied ones) and removes nobody
pub proof fn lemma_sl_bound(src: A, d: Set<usize>, pf: Pf, g2: A, g3: A, v1: int, j: int)
    requires
        sl_mid(src, d, pf, g2, v1, j), j < src.edges[v1].len(), d.contains(src.edges[v1][j].1),
        present(g2, src.edges[v1][j].1 as int), src.edges[v1][j].1 as int != v1,
        distinct_keys(src.edges[v1]),
        bind_content(g2, g3, v1, src.edges[v1][j].1 as int, src.edges[v1][j].0),
        bind_tags(g2, g3, v1, src.edges[v1][j].1 as int),
    ensures sl_mid(src, d, pf, g3, v1, j + 1),
{
    let v2 = src.edges[v1][j].1 as int;
    let k = src.edges[v1][j].0;
    let se = src.edges[v1];
    let e2 = g2.edges[v1];
    lemma_fresh_label(se, e2, j);
    assert(present(g2, v1));
    // the edge list of v1 grows by source edge j; nothing else changes; nobody appears or disappears
    assert(g3.edges[v1] == upsert(e2, k, v2 as usize));
    assert(upsert(e2, k, v2 as usize) == e2.push((k, v2 as usize)));
    assert(se[j] == (k, v2 as usize));
    assert(g3.edges[v1] == e2.push(se[j]));
    assert(sl_frame(g2, g3, v1)) by {
        assert(g3.tag.len() == g2.tag.len());
        assert forall|u: int| 0 <= u < g2.tag.len() implies (#[trigger] present(g3, u) <==> present(g2, u)) by {}
        assert forall|u: int| 0 <= u < g2.edges.len() && u != v1 implies (#[trigger] g3.edges[u]) == g2.edges[u] by {}
    }
    lemma_only_source_push(se, e2, j);
    lemma_has_accepted_push(se, d, pf, e2, v1, j);
    lemma_frame_present_in(g2, g3, d, v1);
    lemma_frame_done_below(src, d, pf, g2, g3, v1, v1);
    lemma_frame_only_source(src, g2, g3, v1, v1);
    lemma_frame_empty_from(g2, g3, v1 + 1, v1);
    assert(present(g3, v1));
    assert(g3.edges[v1].len() <= j + 1);
}

/// all source edges of v1 are done
pub proof fn lemma_sl_leave(src: A, d: Set<usize>, pf: Pf, g: A, v1: int)
    requires sl_mid(src, d, pf, g, v1, src.edges[v1].len() as int),
    ensures sl_inv(src, d, pf, g, v1 + 1),
{
    assert forall|u: int| #![trigger g.edges[u]] 0 <= u < g.tag.len() implies only_source(src.edges[u], g.edges[u], src.edges[u].len() as int) by {}
}

/// the filter is exhausted: the ids in [upto, cap) are not kept
pub proof fn lemma_sl_final(src: A, pf: Pf, v0: usize, d: Set<usize>, g: A, upto: int)
    requires
        sl_inv(src, d, pf, g, upto), 0 <= upto,
        forall|u: usize| upto <= u < g.tag.len() ==> !d.contains(u),
        forall|w: usize| d.contains(w) <==> reachable(src, pf, v0, w),
    ensures is_slice(src, pf, v0, g),
{
    assert forall|w: int| 0 <= w < g.tag.len() implies (#[trigger] present(g, w) <==> reachable(src, pf, v0, w as usize)) by {
        if d.contains(w as usize) { assert(w < upto); assert(present(g, w)); }
    }
    assert forall|u: int, j: int| 0 <= u < g.tag.len() && 0 <= j < src.edges[u].len() && reachable(src, pf, v0, u as usize)
            && pf(u as usize, (#[trigger] src.edges[u][j]).1, src.edges[u][j].0) implies g.edges[u].contains(src.edges[u][j]) by {
        assert(d.contains(u as usize));
        assert(u < upto);
        assert(present(g, u));
        assert(has_accepted(src.edges[u], d, pf, g.edges[u], u, src.edges[u].len() as int));
        // an accepted edge out of a reachable vertex leads to a reachable vertex
        assert(acc(src, pf, u as usize, src.edges[u][j].1));
        lemma_reach_step(src, pf, v0, u as usize, src.edges[u][j].1);
    }
    assert forall|u: int, i: int| 0 <= u < g.tag.len() && 0 <= i < g.edges[u].len() implies src.edges[u].contains(#[trigger] g.edges[u][i]) by {
        assert(only_source(src.edges[u], g.edges[u], src.edges[u].len() as int));
        assert(from_first(src.edges[u], src.edges[u].len() as int, g.edges[u][i]));
        let x = choose|x: int| 0 <= x < src.edges[u].len() && x < src.edges[u].len() && #[trigger] src.edges[u][x] == g.edges[u][i];
        assert(src.edges[u][x] == g.edges[u][i]);
    }
}

/// Room in the group table: all present vertices of g lie in a set of at most 15 ids, so a group that an ungrouped
/// vertex joins has fewer than 16 members, and two ungrouped vertices find a free slot among the 14.
pub proof fn lemma_sl_room(g: A, d: Set<usize>, v1: int, v2: int)
    requires
        inv(g), d.len() <= 15, present(g, v1), present(g, v2), v1 != v2,
        forall|u: int| 0 <= u < g.tag.len() && #[trigger] present(g, u) ==> d.contains(u as usize),
    ensures
        g.tag[v1] == 1 && g.tag[v2] == 1 ==> first_free(g) < 16,
        g.tag[v1] == 1 && g.tag[v2] >= 2 ==> g.members[g.tag[v2]].len() < 16,
        g.tag[v1] >= 2 && g.tag[v2] == 1 ==> g.members[g.tag[v1]].len() < 16,
{
    assert(d.contains(v1 as usize) && d.contains(v2 as usize));
    if g.tag[v1] == 1 && g.tag[v2] >= 2 {
        lemma_sl_group_small(g, d, g.tag[v2], v1);
    }
    if g.tag[v1] >= 2 && g.tag[v2] == 1 {
        lemma_sl_group_small(g, d, g.tag[v1], v2);
    }
    if g.tag[v1] == 1 && g.tag[v2] == 1 && first_free(g) >= 16 {
        lemma_first_free_props(g.members, 2);
        // one witness per group slot: 14 distinct present ids, none of them v1 or v2
        let w = Seq::new(14, |i: int| g.members[i + 2][0]);
        let t = d.remove(v1 as usize).remove(v2 as usize);
        assert forall|i: int| 0 <= i < w.len() implies t.contains(#[trigger] w[i]) by {
            assert(g.members[i + 2].len() > 0);
            assert(group_ok(g, i + 2));
            let m = g.members[i + 2][0];
            assert(m < g.tag.len() && g.tag[m as int] == i + 2);
            assert(present(g, m as int));
        }
        assert(no_dup(w)) by {
            assert forall|i: int, j: int| 0 <= i < j < w.len() implies w[i] != w[j] by {
                assert(group_ok(g, i + 2) && group_ok(g, j + 2));
                assert(g.members[i + 2].len() > 0 && g.members[j + 2].len() > 0);
                assert(g.tag[g.members[i + 2][0] as int] == i + 2);
                assert(g.tag[g.members[j + 2][0] as int] == j + 2);
            }
        }
        lemma_nodup_len(w, t);
        assert(false);
    }
}

pub proof fn lemma_sl_group_small(g: A, d: Set<usize>, b: int, other: int)
    requires
        inv(g), d.len() <= 15, 2 <= b < 16, present(g, other), g.tag[other] == 1,
        forall|u: int| 0 <= u < g.tag.len() && #[trigger] present(g, u) ==> d.contains(u as usize),
    ensures g.members[b].len() < 16,
{
    let ms = g.members[b];
    let t = d.remove(other as usize);
    assert(group_ok(g, b));
    assert(d.contains(other as usize));
    assert forall|i: int| 0 <= i < ms.len() implies t.contains(#[trigger] ms[i]) by {
        assert(ms[i] < g.tag.len() && g.tag[ms[i] as int] == b);
        assert(present(g, ms[i] as int));
    }
    lemma_nodup_len(ms, t);
}

/// bind(v1, v2, k) for source edge j of v1 is within its limits
pub proof fn lemma_sl_bind_pre(src: A, d: Set<usize>, pf: Pf, g: A, v1: int, j: int, n: int)
    requires
        sl_mid(src, d, pf, g, v1, j), inv(g), d.len() <= 15, j < src.edges[v1].len(), src.edges[v1].len() <= n,
        distinct_keys(src.edges[v1]),
        present(g, src.edges[v1][j].1 as int), src.edges[v1][j].1 as int != v1,
    ensures bind_pre(g, v1, src.edges[v1][j].1 as int, src.edges[v1][j].0, n),
{
    let v2 = src.edges[v1][j].1 as int;
    lemma_sl_room(g, d, v1, v2);
}
