// ======================================================================================
// What merge() may do to the LEFT graph (C11, the part a per-function contract can carry): the left graph is touched only
// through put / bind / add / next_id (and join), and the transcript of those calls is justified by the right graph:
//   * data is put exactly onto the images of the newly mapped right vertices that have data, and it is their data;
//   * an edge is bound only from the image of a newly mapped right vertex to the image of one of its kids, under that
//     kid's label ("only edges and data demanded by h are added");
//   * a vertex is added only under an id that next_id() has just returned, and is bound to its parent at once
//     ("exactly one new vertex per path that g lacked, under an id that was not present").
// Pure spec/proof.
// ======================================================================================

pub enum Ev {
    Put(usize, Seq<u8>),
    Bind(usize, usize, Label),
    Add(usize),
    NextId(usize),
    Join(usize, usize),
    /// a destructive read data(v): never justified by a merge
    Read(usize),
}

spec fn is_new(m0: Map<usize, usize>, m: Map<usize, usize>, r: usize) -> bool { m.contains_key(r) && !m0.contains_key(r) }

/// the mapping is only extended: old pairs stay
spec fn ext(m0: Map<usize, usize>, m: Map<usize, usize>) -> bool {
    forall|k: usize| #[trigger] m0.contains_key(k) ==> m.contains_key(k) && m[k] == m0[k]
}

spec fn has_data(a: A, r: int) -> bool { a.pers[r] != Persistence::Empty }

spec fn put_ok(a: A, m0: Map<usize, usize>, m: Map<usize, usize>, x: usize, d: Seq<u8>) -> bool {
    exists|r: usize| is_new(m0, m, r) && #[trigger] m[r] == x && r < a.tag.len() && has_data(a, r as int) && d == a.data[r as int]
}

spec fn bind_ok(a: A, m0: Map<usize, usize>, m: Map<usize, usize>, x: usize, y: usize, l: Label) -> bool {
    exists|r: usize, j: int| is_new(m0, m, r) && m[r] == x && r < a.edges.len() && 0 <= j < a.edges[r as int].len()
        && (#[trigger] a.edges[r as int][j]).0 == l && m.contains_key(a.edges[r as int][j].1) && m[a.edges[r as int][j].1] == y
}

/// event i of the transcript s is justified
spec fn ev_ok(a: A, m0: Map<usize, usize>, m: Map<usize, usize>, s: Seq<Ev>, i: int) -> bool {
    match s[i] {
        Ev::Put(x, d) => put_ok(a, m0, m, x, d),
        Ev::Bind(x, y, l) => bind_ok(a, m0, m, x, y, l),
        Ev::Add(v) => 0 < i && s[i - 1] == Ev::NextId(v) && i + 1 < s.len() && (match s[i + 1] { Ev::Bind(_, y, _) => y == v, _ => false }),
        Ev::NextId(v) => i + 1 < s.len() && s[i + 1] == Ev::Add(v),
        Ev::Join(_, _) => true,
        Ev::Read(_) => false,
    }
}

spec fn data_done(a: A, m0: Map<usize, usize>, m: Map<usize, usize>, s: Seq<Ev>) -> bool {
    forall|r: usize| #![trigger m[r]] is_new(m0, m, r) && r < a.tag.len() && has_data(a, r as int) ==> s.contains(Ev::Put(m[r], a.data[r as int]))
}

/// the transcript s, produced while the mapping grew from m0 to m, is justified by the right graph a
spec fn log_ok(a: A, m0: Map<usize, usize>, m: Map<usize, usize>, s: Seq<Ev>) -> bool {
    &&& forall|i: int| 0 <= i < s.len() ==> #[trigger] ev_ok(a, m0, m, s, i)
    &&& data_done(a, m0, m, s)
}

/// a block of own events, justified with respect to the final mapping
spec fn block_ok(a: A, m0: Map<usize, usize>, m: Map<usize, usize>, e: Seq<Ev>) -> bool {
    forall|i: int| 0 <= i < e.len() ==> #[trigger] ev_ok(a, m0, m, e, i)
}

proof fn lemma_ext_trans(m0: Map<usize, usize>, m1: Map<usize, usize>, m2: Map<usize, usize>)
    requires ext(m0, m1), ext(m1, m2),
    ensures ext(m0, m2),
{
    assert forall|k: usize| #[trigger] m0.contains_key(k) implies m2.contains_key(k) && m2[k] == m0[k] by {
        assert(m1.contains_key(k));
    }
}

/// an event that was justified for (m0, m1) stays justified when the mapping is extended and the base lowered
proof fn lemma_payload_mono(a: A, m0: Map<usize, usize>, m1: Map<usize, usize>, mb: Map<usize, usize>, m2: Map<usize, usize>, ev: Ev)
    requires ext(m0, mb), ext(mb, m1), ext(m1, m2),
    ensures
        (ev matches Ev::Put(x, d) && put_ok(a, mb, m1, x, d)) ==> (ev matches Ev::Put(x, d) && put_ok(a, m0, m2, x, d)),
        (ev matches Ev::Bind(x, y, l) && bind_ok(a, mb, m1, x, y, l)) ==> (ev matches Ev::Bind(x, y, l) && bind_ok(a, m0, m2, x, y, l)),
{
    match ev {
        Ev::Put(x, d) => {
            if put_ok(a, mb, m1, x, d) {
                let r = choose|r: usize| is_new(mb, m1, r) && #[trigger] m1[r] == x && r < a.tag.len() && has_data(a, r as int) && d == a.data[r as int];
                assert(m1.contains_key(r));
                assert(!m0.contains_key(r)) by { if m0.contains_key(r) { assert(mb.contains_key(r)); } }
                assert(is_new(m0, m2, r) && m2[r] == x);
            }
        }
        Ev::Bind(x, y, l) => {
            if bind_ok(a, mb, m1, x, y, l) {
                let (r, j) = choose|r: usize, j: int| is_new(mb, m1, r) && m1[r] == x && r < a.edges.len() && 0 <= j < a.edges[r as int].len()
                    && (#[trigger] a.edges[r as int][j]).0 == l && m1.contains_key(a.edges[r as int][j].1) && m1[a.edges[r as int][j].1] == y;
                assert(m1.contains_key(r));
                assert(!m0.contains_key(r)) by { if m0.contains_key(r) { assert(mb.contains_key(r)); } }
                let to = a.edges[r as int][j].1;
                assert(m1.contains_key(to));
                assert(is_new(m0, m2, r) && m2[r] == x && m2.contains_key(to) && m2[to] == y);
                assert(a.edges[r as int][j].0 == l);
            }
        }
        _ => {}
    }
}

/// s1 (justified while the mapping grew m0 -> mb), then a block e of own events (justified for the final mapping), then s3
/// (justified while it grew mb -> mc): the whole transcript is justified for m0 -> mc
proof fn lemma_log_concat3(a: A, m0: Map<usize, usize>, mb: Map<usize, usize>, mc: Map<usize, usize>, s1: Seq<Ev>, e: Seq<Ev>, s3: Seq<Ev>)
    requires
        ext(m0, mb), ext(mb, mc), log_ok(a, m0, mb, s1), block_ok(a, m0, mc, e), log_ok(a, mb, mc, s3),
    ensures log_ok(a, m0, mc, s1 + e + s3),
{
    let s = s1 + e + s3;
    lemma_ext_trans(m0, mb, mc);
    assert forall|i: int| 0 <= i < s.len() implies #[trigger] ev_ok(a, m0, mc, s, i) by {
        if i < s1.len() {
            assert(s[i] == s1[i]);
            assert(ev_ok(a, m0, mb, s1, i));
            lemma_payload_mono(a, m0, mb, m0, mc, s1[i]);
            if i > 0 { assert(s[i - 1] == s1[i - 1]); }
            if i + 1 < s1.len() { assert(s[i + 1] == s1[i + 1]); }
        } else if i < s1.len() + e.len() {
            let k = i - s1.len();
            assert(s[i] == e[k]);
            assert(ev_ok(a, m0, mc, e, k));
            if k > 0 { assert(s[i - 1] == e[k - 1]); }
            if k + 1 < e.len() { assert(s[i + 1] == e[k + 1]); }
        } else {
            let k = i - s1.len() - e.len();
            assert(s[i] == s3[k]);
            assert(ev_ok(a, mb, mc, s3, k));
            lemma_payload_mono(a, m0, mc, mb, mc, s3[k]);
            if k > 0 { assert(s[i - 1] == s3[k - 1]); }
            if k + 1 < s3.len() { assert(s[i + 1] == s3[k + 1]); }
        }
    }
    assert forall|r: usize| #![trigger mc[r]] is_new(m0, mc, r) && r < a.tag.len() && has_data(a, r as int) implies s.contains(Ev::Put(mc[r], a.data[r as int])) by {
        if mb.contains_key(r) {
            assert(is_new(m0, mb, r));
            assert(s1.contains(Ev::Put(mb[r], a.data[r as int])));
            let i = choose|i: int| 0 <= i < s1.len() && s1[i] == Ev::Put(mb[r], a.data[r as int]);
            assert(s[i] == s1[i]);
        } else {
            assert(is_new(mb, mc, r));
            assert(s3.contains(Ev::Put(mc[r], a.data[r as int])));
            let i = choose|i: int| 0 <= i < s3.len() && s3[i] == Ev::Put(mc[r], a.data[r as int]);
            assert(s[s1.len() + e.len() + i] == s3[i]);
        }
    }
}

/// the very first step of a call: `right` is mapped to `left`, and its data (if any) is put onto `left`
proof fn lemma_log_start(a: A, m0: Map<usize, usize>, left: usize, right: usize, s: Seq<Ev>)
    requires
        !m0.contains_key(right), right < a.tag.len(), a.pers.len() == a.tag.len(), a.data.len() == a.tag.len(),
        s == (if has_data(a, right as int) { seq![Ev::Put(left, a.data[right as int])] } else { Seq::<Ev>::empty() }),
    ensures log_ok(a, m0, m0.insert(right, left), s), ext(m0, m0.insert(right, left)),
{
    let m = m0.insert(right, left);
    assert forall|i: int| 0 <= i < s.len() implies #[trigger] ev_ok(a, m0, m, s, i) by {
        assert(is_new(m0, m, right) && m[right] == left);
    }
    assert forall|r: usize| #![trigger m[r]] is_new(m0, m, r) && r < a.tag.len() && has_data(a, r as int) implies s.contains(Ev::Put(m[r], a.data[r as int])) by {
        assert(r == right);
        assert(s[0] == Ev::Put(left, a.data[right as int]));
    }
}

/// nothing happened and nothing was mapped
proof fn lemma_log_nothing(a: A, m: Map<usize, usize>)
    ensures log_ok(a, m, m, Seq::<Ev>::empty()), ext(m, m),
{
}

/// join events are always allowed (they only occur for right graphs that are not trees)
proof fn lemma_log_join(a: A, m0: Map<usize, usize>, m: Map<usize, usize>, s: Seq<Ev>, x: usize, y: usize)
    requires log_ok(a, m0, m, s),
    ensures log_ok(a, m0, m, s.push(Ev::Join(x, y))),
{
    let s2 = s.push(Ev::Join(x, y));
    assert forall|i: int| 0 <= i < s2.len() implies #[trigger] ev_ok(a, m0, m, s2, i) by {
        if i < s.len() {
            assert(s2[i] == s[i]);
            assert(ev_ok(a, m0, m, s, i));
            if i > 0 { assert(s2[i - 1] == s[i - 1]); }
            if i + 1 < s.len() { assert(s2[i + 1] == s[i + 1]); }
        }
    }
    assert forall|r: usize| #![trigger m[r]] is_new(m0, m, r) && r < a.tag.len() && has_data(a, r as int) implies s2.contains(Ev::Put(m[r], a.data[r as int])) by {
        let i = choose|i: int| 0 <= i < s.len() && s[i] == Ev::Put(m[r], a.data[r as int]);
        assert(s2[i] == s[i]);
    }
}

/// the own events of one kid step of merge_rec(left, right), for kid edge j = (l, to) of `right` whose image is y:
/// nothing (left already had a kid under l), or a bind to the already mapped image, or a fresh vertex bound at once
spec fn kid_block(e: Seq<Ev>, left: usize, y: usize, l: Label) -> bool {
    e =~= Seq::<Ev>::empty() || e =~= seq![Ev::Bind(left, y, l)] || e =~= seq![Ev::NextId(y), Ev::Add(y), Ev::Bind(left, y, l)]
}

proof fn lemma_kid_block(a: A, m0: Map<usize, usize>, m: Map<usize, usize>, e: Seq<Ev>, left: usize, right: usize, j: int, y: usize)
    requires
        is_new(m0, m, right), m[right] == left, right < a.edges.len(), 0 <= j < a.edges[right as int].len(),
        m.contains_key(a.edges[right as int][j].1), m[a.edges[right as int][j].1] == y,
        kid_block(e, left, y, a.edges[right as int][j].0),
    ensures block_ok(a, m0, m, e),
{
    let l = a.edges[right as int][j].0;
    assert(bind_ok(a, m0, m, left, y, l)) by { assert(a.edges[right as int][j].0 == l); }
    assert forall|i: int| 0 <= i < e.len() implies #[trigger] ev_ok(a, m0, m, e, i) by {
        if e =~= seq![Ev::Bind(left, y, l)] {
            assert(e[0] == Ev::Bind(left, y, l));
        } else if e =~= seq![Ev::NextId(y), Ev::Add(y), Ev::Bind(left, y, l)] {
            assert(e[0] == Ev::NextId(y) && e[1] == Ev::Add(y) && e[2] == Ev::Bind(left, y, l));
        }
    }
}

/// merge(): with every present right vertex mapped, the transcript says: every present right vertex that has data had
/// exactly that data put onto its image, and nothing else was put; every bound edge is the image of an edge of the right
/// graph; every added vertex got its id from next_id() and was bound to its parent at once
pub closed spec fn merge_log_ok(a: A, s: Seq<Ev>) -> bool {
    exists|m: Map<usize, usize>| #[trigger] log_ok(a, Map::<usize, usize>::empty(), m, s)
        && forall|v: int| #[trigger] present(a, v) ==> m.contains_key(v as usize)
}
