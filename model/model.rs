// ======================================================================================
// U_model: abstract state of a Sodg, representation invariant, one step relation per
// operation (what the property statements demand, NOT a transcription of the code), and
// the lemmas about the unread counter.  Pure spec/proof text: nothing here is executable.
// ======================================================================================

/// Abstract state: what a user can observe plus the GC bookkeeping the properties name.
pub struct A {
    pub tag: Seq<int>,                       // per id: 0 absent, 1 present+ungrouped, >=2 member of that group
    pub pers: Seq<Persistence>,              // per id: Empty / Stored (= put, unread) / Taken
    pub data: Seq<Seq<u8>>,                  // per id: bytes of the last put
    pub edges: Seq<Seq<(Label, usize)>>,     // per id: ordered label -> target list
    pub members: Seq<Seq<usize>>,            // 16 member lists (0 and 1 reserved)
    pub counter: Seq<int>,                   // 16 unread counters
    pub next_v: int,                         // allocator position
}

pub closed spec fn is_unread(p: Persistence) -> bool { p == Persistence::Stored }

pub closed spec fn u01(pers: Seq<Persistence>, v: int) -> int { if is_unread(pers[v]) { 1 } else { 0 } }

/// number of members of `ms` that hold a put-but-unread datum
pub closed spec fn count_unread(pers: Seq<Persistence>, ms: Seq<usize>) -> int
    decreases ms.len()
{
    if ms.len() == 0 { 0 } else { count_unread(pers, ms.drop_last()) + u01(pers, ms.last() as int) }
}

pub closed spec fn distinct_keys(s: Seq<(Label, usize)>) -> bool {
    forall|i: int, j: int| 0 <= i < j < s.len() ==> (#[trigger] s[i]).0 != (#[trigger] s[j]).0
}

pub closed spec fn no_dup(ms: Seq<usize>) -> bool {
    forall|i: int, j: int| 0 <= i < j < ms.len() ==> ms[i] != ms[j]
}

pub closed spec fn group_ok(a: A, b: int) -> bool {
    let ms = a.members[b];
    &&& ms.len() <= 16
    &&& forall|i: int| 0 <= i < ms.len() ==> (#[trigger] ms[i]) < a.tag.len() && a.tag[ms[i] as int] == b
    &&& no_dup(ms)
    &&& a.counter[b] == count_unread(a.pers, ms)
}

pub closed spec fn in_own_group(a: A, v: int) -> bool {
    a.tag[v] >= 2 ==> a.members[a.tag[v]].contains(v as usize)
}

/// Representation invariant over the abstract state.
pub closed spec fn inv(a: A) -> bool {
    &&& a.tag.len() <= usize::MAX
    &&& a.next_v >= 0
    &&& a.pers.len() == a.tag.len()
    &&& a.data.len() == a.tag.len()
    &&& a.edges.len() == a.tag.len()
    &&& a.members.len() == 16
    &&& a.counter.len() == 16
    &&& a.members[0] =~= seq![0usize]
    &&& a.members[1] =~= seq![0usize]
    &&& a.counter[0] == 0 && a.counter[1] == 0        // the reserved slots are never counted
    &&& forall|v: int| 0 <= v < a.tag.len() ==> 0 <= #[trigger] a.tag[v] < 16
    &&& forall|b: int| 2 <= b < 16 ==> #[trigger] group_ok(a, b)
    &&& forall|v: int| 0 <= v < a.tag.len() ==> #[trigger] in_own_group(a, v)
    &&& forall|v: int| 0 <= v < a.tag.len() ==> distinct_keys(#[trigger] a.edges[v])
}

pub closed spec fn present(a: A, v: int) -> bool { 0 <= v < a.tag.len() && a.tag[v] != 0 }

/// what keys() must return: the present ids, each once, in ascending order
pub closed spec fn is_present_list(a: A, ks: Seq<usize>) -> bool {
    &&& forall|k: int| 0 <= k < ks.len() ==> present(a, (#[trigger] ks[k]) as int)
    &&& forall|k: int, l: int| 0 <= k < l < ks.len() ==> ks[k] < ks[l]
    &&& forall|v: int| present(a, v) ==> ks.contains(v as usize)
}

/// what len() must return: the number of present ids
pub closed spec fn present_count_upto(tag: Seq<int>, n: int) -> int
    decreases n
{
    if n <= 0 { 0 } else { present_count_upto(tag, n - 1) + (if tag[n - 1] != 0 { 1int } else { 0int }) }
}
pub closed spec fn present_count(a: A) -> int { present_count_upto(a.tag, a.tag.len() as int) }

/// an ascending duplicate-free list of exactly the present ids below n has present_count_upto(n) entries
pub proof fn lemma_present_list_len(tag: Seq<int>, ks: Seq<usize>, n: int)
    requires
        0 <= n <= tag.len() <= usize::MAX,
        forall|k: int| 0 <= k < ks.len() ==> 0 <= (#[trigger] ks[k]) < n && tag[ks[k] as int] != 0,
        forall|k: int, l: int| 0 <= k < l < ks.len() ==> ks[k] < ks[l],
        forall|v: int| 0 <= v < n && tag[v] != 0 ==> ks.contains(v as usize),
    ensures ks.len() == present_count_upto(tag, n),
    decreases n,
{
    if n > 0 {
        if tag[n - 1] != 0 {
            // n-1 is present, hence listed, and it is the largest: it is the last entry
            assert(ks.contains((n - 1) as usize));
            let j = choose|j: int| 0 <= j < ks.len() && ks[j] == (n - 1) as usize;
            assert(j == ks.len() - 1) by {
                if j < ks.len() - 1 { assert(ks[j] < ks[ks.len() - 1]); assert((ks[ks.len() - 1] as int) < n); }
            }
            let t = ks.drop_last();
            assert forall|k: int| 0 <= k < t.len() implies 0 <= (#[trigger] t[k]) < n - 1 && tag[t[k] as int] != 0 by {
                assert(t[k] == ks[k]);
                assert(ks[k] < ks[ks.len() - 1]);
            }
            assert forall|k: int, l: int| 0 <= k < l < t.len() implies t[k] < t[l] by { assert(t[k] == ks[k] && t[l] == ks[l]); }
            assert forall|v: int| 0 <= v < n - 1 && tag[v] != 0 implies t.contains(v as usize) by {
                assert(ks.contains(v as usize));
                let i = choose|i: int| 0 <= i < ks.len() && ks[i] == v as usize;
                assert(i != ks.len() - 1) by { if i == ks.len() - 1 { assert(ks[i] as int == v); assert(ks[j] as int == n - 1); } }
                assert(t[i] == ks[i]);
            }
            lemma_present_list_len(tag, t, n - 1);
        } else {
            assert forall|k: int| 0 <= k < ks.len() implies 0 <= (#[trigger] ks[k]) < n - 1 && tag[ks[k] as int] != 0 by {
                if ks[k] == (n - 1) as usize { assert(tag[ks[k] as int] != 0); }
            }
            lemma_present_list_len(tag, ks, n - 1);
        }
    } else {
        if ks.len() > 0 { assert(0 <= ks[0] < n); }
    }
}

pub proof fn lemma_present_list_count(a: A, ks: Seq<usize>)
    requires is_present_list(a, ks), a.tag.len() <= usize::MAX,
    ensures ks.len() == present_count(a),
{
    assert forall|v: int| 0 <= v < a.tag.len() && a.tag[v] != 0 implies ks.contains(v as usize) by { assert(present(a, v)); }
    assert forall|k: int| 0 <= k < ks.len() implies 0 <= (#[trigger] ks[k]) < a.tag.len() && a.tag[ks[k] as int] != 0 by { assert(present(a, ks[k] as int)); }
    lemma_present_list_len(a.tag, ks, a.tag.len() as int);
}

// -------------------------------- edges --------------------------------

pub closed spec fn lookup(s: Seq<(Label, usize)>, k: Label) -> Option<usize> {
    let i = micromap::key_index(s, k);
    if i < 0 { None } else { Some(s[i].1) }
}

/// replace the value at the position of an existing label, or append
pub closed spec fn upsert(s: Seq<(Label, usize)>, k: Label, t: usize) -> Seq<(Label, usize)> {
    let i = micromap::key_index(s, k);
    if i >= 0 { s.update(i, (s[i].0, t)) } else { s.push((k, t)) }
}

// -------------------------------- group slots --------------------------------

/// least slot >= k whose member list is empty (16 if none)
pub closed spec fn first_free_from(members: Seq<Seq<usize>>, k: int) -> int
    decreases 16 - k
{
    if k >= 16 { 16 } else if members[k].len() == 0 { k } else { first_free_from(members, k + 1) }
}

pub closed spec fn first_free(a: A) -> int { first_free_from(a.members, 2) }

// -------------------------------- step relations --------------------------------

pub closed spec fn same_graph_part(a: A, a2: A) -> bool {
    &&& a2.pers =~~= a.pers
    &&& a2.data =~~= a.data
    &&& a2.edges =~~= a.edges
}

pub closed spec fn same_gc_part(a: A, a2: A) -> bool {
    &&& a2.tag =~~= a.tag
    &&& a2.members =~~= a.members
    &&& a2.counter =~~= a.counter
}

pub closed spec fn empty_graph(a: A, cap: int) -> bool {
    &&& a.tag =~~= Seq::new(cap as nat, |i: int| 0int)
    &&& a.pers =~~= Seq::new(cap as nat, |i: int| Persistence::Empty)
    &&& a.data =~~= Seq::new(cap as nat, |i: int| Seq::<u8>::empty())
    &&& a.edges =~~= Seq::new(cap as nat, |i: int| Seq::<(Label, usize)>::empty())
}
/// 16 member lists, the two reserved ones kept non-empty by a sentinel, all counters zero
pub closed spec fn empty_gc(a: A) -> bool {
    &&& a.members =~~= Seq::new(16, |b: int| if b < 2 { seq![0usize] } else { Seq::<usize>::empty() })
    &&& a.counter =~~= Seq::new(16, |b: int| 0int)
}
pub closed spec fn empty_state(a: A, cap: int) -> bool {
    empty_graph(a, cap) && empty_gc(a) && a.next_v == 0
}

// Every step relation is the conjunction of five component relations, so that a failing obligation names the
// component (and therefore the properties) it belongs to:
//   content : data bytes and edges          (C03, C04)
//   pers    : Empty / Stored / Taken        (C01, C02, C03)
//   tags    : group tags and member lists   (C01, C02, C06)
//   counter : unread counters               (C01, C02, C06)
//   alloc   : allocator position            (C05)

pub closed spec fn dims_same(a: A, a2: A) -> bool {
    &&& a2.tag.len() == a.tag.len()
    &&& a2.pers.len() == a.pers.len()
    &&& a2.data.len() == a.data.len()
    &&& a2.edges.len() == a.edges.len()
    &&& a2.members.len() == a.members.len()
    &&& a2.counter.len() == a.counter.len()
}

pub closed spec fn edges_ok(a: A) -> bool {
    forall|v: int| 0 <= v < a.edges.len() ==> distinct_keys(#[trigger] a.edges[v])
}

// ---- add(v): blank vertex on an absent id, nothing on a present id  (C04) ----
pub closed spec fn add_content(a: A, a2: A, v: int) -> bool {
    if a.tag[v] == 0 {
        &&& a2.data =~~= a.data.update(v, Seq::<u8>::empty())
        &&& a2.edges =~~= a.edges.update(v, Seq::<(Label, usize)>::empty())
    } else {
        &&& a2.data =~~= a.data
        &&& a2.edges =~~= a.edges
    }
}
pub closed spec fn add_pers(a: A, a2: A, v: int) -> bool {
    a2.pers =~~= (if a.tag[v] == 0 { a.pers.update(v, Persistence::Empty) } else { a.pers })
}
pub closed spec fn add_tags(a: A, a2: A, v: int) -> bool {
    &&& a2.tag =~~= (if a.tag[v] == 0 { a.tag.update(v, 1) } else { a.tag })
    &&& a2.members =~~= a.members
}
pub closed spec fn add_counter(a: A, a2: A, v: int) -> bool { a2.counter =~~= a.counter }
pub closed spec fn add_gc(a: A, a2: A, v: int) -> bool {
    add_pers(a, a2, v) && add_tags(a, a2, v) && add_counter(a, a2, v) && dims_same(a, a2)
}
pub closed spec fn add_step(a: A, a2: A, v: int) -> bool {
    add_content(a, a2, v) && add_gc(a, a2, v) && a2.next_v == a.next_v
}

// ---- put(v,d): v holds d, unread; the group's counter grows iff the old datum was not already unread ----
pub closed spec fn put_content(a: A, a2: A, v: int, d: Seq<u8>) -> bool {
    &&& a2.edges =~~= a.edges
    &&& a2.data =~~= a.data.update(v, d)
}
pub closed spec fn put_pers(a: A, a2: A, v: int) -> bool { a2.pers =~~= a.pers.update(v, Persistence::Stored) }
pub closed spec fn put_tags(a: A, a2: A, v: int) -> bool { a2.tag =~~= a.tag && a2.members =~~= a.members }
pub closed spec fn put_counter(a: A, a2: A, v: int) -> bool {
    a2.counter =~~= (if a.tag[v] >= 2 && !is_unread(a.pers[v]) {
        a.counter.update(a.tag[v], a.counter[a.tag[v]] + 1)
    } else { a.counter })
}
pub closed spec fn put_gc(a: A, a2: A, v: int) -> bool {
    put_pers(a, a2, v) && put_tags(a, a2, v) && put_counter(a, a2, v) && dims_same(a, a2)
}
pub closed spec fn put_step(a: A, a2: A, v: int, d: Seq<u8>) -> bool {
    put_content(a, a2, v, d) && put_gc(a, a2, v) && a2.next_v == a.next_v
}

// ---- data(v): returns the bytes of the last put; a first read decrements; the group dies exactly at zero ----
pub closed spec fn data_result(a: A, v: int) -> Option<Seq<u8>> {
    if a.pers[v] == Persistence::Empty { None } else { Some(a.data[v]) }
}

/// does data(v) collect v's group?  exactly when v is grouped, unread, and holds the LAST unread datum
pub closed spec fn data_collects(a: A, v: int) -> bool {
    a.tag[v] >= 2 && is_unread(a.pers[v]) && a.counter[a.tag[v]] == 1
}

pub closed spec fn data_content(a: A, a2: A, v: int) -> bool { a2.data =~~= a.data && a2.edges =~~= a.edges }
pub closed spec fn data_pers(a: A, a2: A, v: int) -> bool {
    a2.pers =~~= (if is_unread(a.pers[v]) { a.pers.update(v, Persistence::Taken) } else { a.pers })
}
/// who is removed: exactly the vertices tagged with the reader's group, and only when the call collects
pub closed spec fn data_tags(a: A, a2: A, v: int) -> bool {
    let b = a.tag[v];
    if data_collects(a, v) {
        &&& a2.tag =~~= Seq::new(a.tag.len(), |u: int| if a.tag[u] == b { 0int } else { a.tag[u] })
        &&& a2.members =~~= a.members.update(b, Seq::<usize>::empty())
    } else {
        &&& a2.tag =~~= a.tag
        &&& a2.members =~~= a.members
    }
}
pub closed spec fn data_counter(a: A, a2: A, v: int) -> bool {
    let b = a.tag[v];
    a2.counter =~~= (if data_collects(a, v) { a.counter.update(b, 0) }
        else if b >= 2 && is_unread(a.pers[v]) { a.counter.update(b, a.counter[b] - 1) }
        else { a.counter })
}
pub closed spec fn data_gc(a: A, a2: A, v: int) -> bool {
    data_pers(a, a2, v) && data_tags(a, a2, v) && data_counter(a, a2, v) && dims_same(a, a2)
}
pub closed spec fn data_step(a: A, a2: A, v: int) -> bool {
    data_content(a, a2, v) && data_gc(a, a2, v) && a2.next_v == a.next_v
}

// ---- bind(v1,v2,l): edge upsert + the three group-join rules ----
pub closed spec fn bind_content(a: A, a2: A, v1: int, v2: int, l: Label) -> bool {
    &&& a2.data =~~= a.data
    &&& a2.edges =~~= a.edges.update(v1, upsert(a.edges[v1], l, v2 as usize))
}
pub closed spec fn bind_pers(a: A, a2: A) -> bool { a2.pers =~~= a.pers }
pub closed spec fn bind_tags(a: A, a2: A, v1: int, v2: int) -> bool {
    let t1 = a.tag[v1];
    let t2 = a.tag[v2];
    if t1 == 1 && t2 == 1 {
        let b = first_free(a);
        &&& 2 <= b < 16
        &&& a2.tag =~~= a.tag.update(v1, b).update(v2, b)
        &&& a2.members =~~= a.members.update(b, seq![v1 as usize, v2 as usize])
    } else if t1 == 1 {
        &&& a2.tag =~~= a.tag.update(v1, t2)
        &&& a2.members =~~= a.members.update(t2, a.members[t2].push(v1 as usize))
    } else if t2 == 1 {
        &&& a2.tag =~~= a.tag.update(v2, t1)
        &&& a2.members =~~= a.members.update(t1, a.members[t1].push(v2 as usize))
    } else {
        &&& a2.tag =~~= a.tag
        &&& a2.members =~~= a.members
    }
}
pub closed spec fn bind_counter(a: A, a2: A, v1: int, v2: int) -> bool {
    let t1 = a.tag[v1];
    let t2 = a.tag[v2];
    a2.counter =~~= (if t1 == 1 && t2 == 1 { a.counter.update(first_free(a), u01(a.pers, v1) + u01(a.pers, v2)) }
        else if t1 == 1 { a.counter.update(t2, a.counter[t2] + u01(a.pers, v1)) }
        else if t2 == 1 { a.counter.update(t1, a.counter[t1] + u01(a.pers, v2)) }
        else { a.counter })
}
pub closed spec fn bind_gc(a: A, a2: A, v1: int, v2: int) -> bool {
    bind_pers(a, a2) && bind_tags(a, a2, v1, v2) && bind_counter(a, a2, v1, v2) && dims_same(a, a2)
}
pub closed spec fn bind_step(a: A, a2: A, v1: int, v2: int, l: Label) -> bool {
    bind_content(a, a2, v1, v2, l) && bind_gc(a, a2, v1, v2) && a2.next_v == a.next_v
}

/// preconditions of bind within the limits of the property quantifier
pub closed spec fn bind_pre(a: A, v1: int, v2: int, l: Label, n: int) -> bool {
    &&& present(a, v1) && present(a, v2) && v1 != v2
    &&& (micromap::key_index(a.edges[v1], l) >= 0 || a.edges[v1].len() < n)          // at most N labels
    &&& (a.tag[v1] == 1 && a.tag[v2] == 1 ==> first_free(a) < 16)                       // fewer than 14 groups alive
    &&& (a.tag[v1] == 1 && a.tag[v2] >= 2 ==> a.members[a.tag[v2]].len() < 16)          // group has room
    &&& (a.tag[v1] >= 2 && a.tag[v2] == 1 ==> a.members[a.tag[v1]].len() < 16)
}

/// next_id(): least absent id at or above the allocator position; the position moves past it  (C05)
pub closed spec fn next_id_pre(a: A) -> bool {
    exists|v: int| a.next_v <= v < a.tag.len() && a.tag[v] == 0
}

/// the id handed out: below the capacity, absent, at or above the position, and the least such
pub closed spec fn next_id_result(a: A, r: int) -> bool {
    &&& a.next_v <= r < a.tag.len()
    &&& a.tag[r] == 0
    &&& forall|v: int| a.next_v <= v < r ==> a.tag[v] != 0
}

pub closed spec fn next_id_step(a: A, a2: A, r: int) -> bool {
    &&& next_id_result(a, r)
    &&& a2.next_v == r + 1
    &&& same_graph_part(a, a2)
    &&& same_gc_part(a, a2)
}

pub closed spec fn abs_eq(a: A, a2: A) -> bool {
    &&& same_graph_part(a, a2)
    &&& same_gc_part(a, a2)
    &&& a2.next_v == a.next_v
}

// -------------------------------- lemmas about the unread counter --------------------------------

pub proof fn lemma_count_bounds(pers: Seq<Persistence>, ms: Seq<usize>)
    ensures 0 <= count_unread(pers, ms) <= ms.len(),
    decreases ms.len(),
{
    if ms.len() > 0 { lemma_count_bounds(pers, ms.drop_last()); }
}

pub proof fn lemma_count_push(pers: Seq<Persistence>, ms: Seq<usize>, m: usize)
    ensures count_unread(pers, ms.push(m)) == count_unread(pers, ms) + u01(pers, m as int),
{
    assert(ms.push(m).drop_last() =~= ms);
}

/// the count only looks at the persistence of the members
pub proof fn lemma_count_frame(p1: Seq<Persistence>, p2: Seq<Persistence>, ms: Seq<usize>)
    requires forall|i: int| 0 <= i < ms.len() ==> is_unread(p1[(#[trigger] ms[i]) as int]) == is_unread(p2[ms[i] as int]),
    ensures count_unread(p1, ms) == count_unread(p2, ms),
    decreases ms.len(),
{
    if ms.len() > 0 {
        let t = ms.drop_last();
        assert forall|i: int| 0 <= i < t.len() implies is_unread(p1[(#[trigger] t[i]) as int]) == is_unread(p2[t[i] as int]) by {
            assert(t[i] == ms[i]);
        }
        lemma_count_frame(p1, p2, t);
        assert(ms.last() == ms[ms.len() - 1]);
    }
}

/// changing the persistence of ONE member (which occurs once) moves the count by the difference
pub proof fn lemma_count_flip(p1: Seq<Persistence>, p2: Seq<Persistence>, ms: Seq<usize>, v: usize)
    requires
        no_dup(ms),
        ms.contains(v),
        forall|i: int| 0 <= i < ms.len() && ms[i] != v ==> is_unread(p1[(#[trigger] ms[i]) as int]) == is_unread(p2[ms[i] as int]),
    ensures count_unread(p2, ms) == count_unread(p1, ms) + u01(p2, v as int) - u01(p1, v as int),
    decreases ms.len(),
{
    let t = ms.drop_last();
    let k = choose|k: int| 0 <= k < ms.len() && ms[k] == v;
    assert(ms.last() == ms[ms.len() - 1]);
    assert forall|i: int| 0 <= i < t.len() implies t[i] == ms[i] by {}
    if ms.last() == v {
        // v is the last one and occurs nowhere else
        assert forall|i: int| 0 <= i < t.len() implies is_unread(p1[(#[trigger] t[i]) as int]) == is_unread(p2[t[i] as int]) by {
            assert(t[i] == ms[i]);
            assert(ms[i] != ms[ms.len() - 1]);
        }
        lemma_count_frame(p1, p2, t);
    } else {
        assert(k < ms.len() - 1);
        assert(t[k] == v);
        assert(t.contains(v));
        assert(no_dup(t)) by {
            assert forall|i: int, j: int| 0 <= i < j < t.len() implies t[i] != t[j] by {
                assert(t[i] == ms[i] && t[j] == ms[j]);
            }
        }
        assert forall|i: int| 0 <= i < t.len() && t[i] != v implies is_unread(p1[(#[trigger] t[i]) as int]) == is_unread(p2[t[i] as int]) by {
            assert(t[i] == ms[i]);
        }
        lemma_count_flip(p1, p2, t, v);
    }
}

/// a zero count means no member is unread
pub proof fn lemma_count_zero(pers: Seq<Persistence>, ms: Seq<usize>)
    requires count_unread(pers, ms) == 0,
    ensures forall|i: int| 0 <= i < ms.len() ==> !is_unread(pers[(#[trigger] ms[i]) as int]),
    decreases ms.len(),
{
    if ms.len() > 0 {
        let t = ms.drop_last();
        lemma_count_bounds(pers, t);
        lemma_count_zero(pers, t);
        assert forall|i: int| 0 <= i < ms.len() implies !is_unread(pers[(#[trigger] ms[i]) as int]) by {
            if i < t.len() { assert(t[i] == ms[i]); } else { assert(ms[i] == ms.last()); }
        }
    }
}

/// a positive count has an unread witness
pub proof fn lemma_count_pos(pers: Seq<Persistence>, ms: Seq<usize>)
    requires count_unread(pers, ms) > 0,
    ensures exists|i: int| 0 <= i < ms.len() && is_unread(pers[(#[trigger] ms[i]) as int]),
    decreases ms.len(),
{
    if ms.len() > 0 {
        let t = ms.drop_last();
        if is_unread(pers[ms.last() as int]) {
            assert(ms[ms.len() - 1] == ms.last());
        } else {
            lemma_count_pos(pers, t);
            let i = choose|i: int| 0 <= i < t.len() && is_unread(pers[(#[trigger] t[i]) as int]);
            assert(t[i] == ms[i]);
        }
    }
}

pub proof fn lemma_first_free(members: Seq<Seq<usize>>, k: int, b: int)
    requires
        2 <= k <= b < 16,
        members[b].len() == 0,
        forall|c: int| k <= c < b ==> (#[trigger] members[c]).len() > 0,
    ensures first_free_from(members, k) == b,
    decreases b - k,
{
    if k < b { lemma_first_free(members, k + 1, b); }
}

pub proof fn lemma_first_free_props(members: Seq<Seq<usize>>, k: int)
    requires 2 <= k <= 16,
    ensures
        k <= first_free_from(members, k) <= 16,
        first_free_from(members, k) < 16 ==> members[first_free_from(members, k)].len() == 0,
        forall|c: int| k <= c < first_free_from(members, k) ==> (#[trigger] members[c]).len() > 0,
    decreases 16 - k,
{
    if k < 16 && members[k].len() != 0 { lemma_first_free_props(members, k + 1); }
}

/// upsert keeps labels distinct
pub proof fn lemma_upsert_distinct(s: Seq<(Label, usize)>, k: Label, t: usize)
    requires distinct_keys(s),
    ensures distinct_keys(upsert(s, k, t)),
{
    lemma_key_index(s, k);
    let i = micromap::key_index(s, k);
    let s2 = upsert(s, k, t);
    if i >= 0 {
        assert forall|x: int, y: int| 0 <= x < y < s2.len() implies (#[trigger] s2[x]).0 != (#[trigger] s2[y]).0 by {
            assert(s2[x].0 == s[x].0 && s2[y].0 == s[y].0);
        }
    } else {
        assert forall|x: int, y: int| 0 <= x < y < s2.len() implies (#[trigger] s2[x]).0 != (#[trigger] s2[y]).0 by {
            if y < s.len() { assert(s2[x] == s[x] && s2[y] == s[y]); } else { assert(s2[x] == s[x]); assert(s[x].0 != k); }
        }
    }
}

/// what key_index means
pub proof fn lemma_key_index(s: Seq<(Label, usize)>, k: Label)
    ensures
        -1 <= micromap::key_index(s, k) < s.len(),
        micromap::key_index(s, k) >= 0 ==> s[micromap::key_index(s, k)].0 == k,
        forall|j: int| 0 <= j < s.len() && (micromap::key_index(s, k) < 0 || j < micromap::key_index(s, k)) ==> (#[trigger] s[j]).0 != k,
    decreases s.len(),
{
    if s.len() > 0 && s[0].0 != k {
        let t = s.drop_first();
        lemma_key_index(t, k);
        let r = micromap::key_index(t, k);
        assert forall|j: int| 0 <= j < s.len() && (micromap::key_index(s, k) < 0 || j < micromap::key_index(s, k)) implies (#[trigger] s[j]).0 != k by {
            if j > 0 { assert(t[j - 1] == s[j]); }
        }
        if r >= 0 { assert(t[r] == s[r + 1]); }
    }
}

// -------------------------------- every step preserves the invariant --------------------------------

/// a vertex tagged 0 or 1 is in no group's member list
pub proof fn lemma_ungrouped_not_member(a: A, v: int, b: int)
    requires inv(a), 0 <= v < a.tag.len(), a.tag[v] < 2, 2 <= b < 16,
    ensures forall|i: int| 0 <= i < a.members[b].len() ==> (#[trigger] a.members[b][i]) != v,
{
    assert(group_ok(a, b));
}

/// members of group b are in no other group's list
pub proof fn lemma_other_group_not_member(a: A, v: int, b: int)
    requires inv(a), 0 <= v < a.tag.len(), 2 <= b < 16, a.tag[v] != b,
    ensures forall|i: int| 0 <= i < a.members[b].len() ==> (#[trigger] a.members[b][i]) != v,
{
    assert(group_ok(a, b));
}

pub proof fn lemma_empty_inv(a: A, cap: int)
    requires 0 <= cap <= usize::MAX, empty_state(a, cap),
    ensures inv(a),
{
    assert forall|b: int| 2 <= b < 16 implies #[trigger] group_ok(a, b) by {
        assert(a.members[b] =~= Seq::<usize>::empty());
    }
    assert forall|v: int| 0 <= v < a.tag.len() implies #[trigger] in_own_group(a, v) by {}
    assert forall|v: int| 0 <= v < a.tag.len() implies distinct_keys(#[trigger] a.edges[v]) by {}
}

pub proof fn lemma_add_inv(a: A, a2: A, v: int)
    requires inv(a), 0 <= v < a.tag.len(), add_gc(a, a2, v), edges_ok(a2), a2.next_v >= 0,
    ensures inv(a2),
{
    if a.tag[v] == 0 {
        assert forall|b: int| 2 <= b < 16 implies #[trigger] group_ok(a2, b) by {
            assert(group_ok(a, b));
            lemma_ungrouped_not_member(a, v, b);
            let ms = a.members[b];
            assert forall|i: int| 0 <= i < ms.len() implies is_unread(a.pers[(#[trigger] ms[i]) as int]) == is_unread(a2.pers[ms[i] as int]) by {}
            lemma_count_frame(a.pers, a2.pers, ms);
        }
        assert forall|u: int| 0 <= u < a2.tag.len() implies #[trigger] in_own_group(a2, u) by {
            assert(in_own_group(a, u));
        }
        assert forall|u: int| 0 <= u < a2.tag.len() implies distinct_keys(#[trigger] a2.edges[u]) by {}
    } else {
        assert forall|b: int| 2 <= b < 16 implies #[trigger] group_ok(a2, b) by { assert(group_ok(a, b)); }
        assert forall|u: int| 0 <= u < a2.tag.len() implies #[trigger] in_own_group(a2, u) by { assert(in_own_group(a, u)); }
        assert forall|u: int| 0 <= u < a2.tag.len() implies distinct_keys(#[trigger] a2.edges[u]) by {}
    }
}

pub proof fn lemma_put_inv(a: A, a2: A, v: int)
    requires inv(a), present(a, v), put_gc(a, a2, v), edges_ok(a2), a2.next_v >= 0,
    ensures inv(a2),
{
    let t = a.tag[v];
    assert forall|b: int| 2 <= b < 16 implies #[trigger] group_ok(a2, b) by {
        assert(group_ok(a, b));
        let ms = a.members[b];
        if b == t {
            assert(in_own_group(a, v));
            lemma_count_flip(a.pers, a2.pers, ms, v as usize);
        } else {
            lemma_other_group_not_member(a, v, b);
            assert forall|i: int| 0 <= i < ms.len() implies is_unread(a.pers[(#[trigger] ms[i]) as int]) == is_unread(a2.pers[ms[i] as int]) by {}
            lemma_count_frame(a.pers, a2.pers, ms);
        }
    }
    assert forall|u: int| 0 <= u < a2.tag.len() implies #[trigger] in_own_group(a2, u) by { assert(in_own_group(a, u)); }
    assert forall|u: int| 0 <= u < a2.tag.len() implies distinct_keys(#[trigger] a2.edges[u]) by {}
}

pub proof fn lemma_data_inv(a: A, a2: A, v: int)
    requires inv(a), present(a, v), data_gc(a, a2, v), edges_ok(a2), a2.next_v >= 0,
    ensures inv(a2),
{
    let t = a.tag[v];
    assert forall|u: int| 0 <= u < a2.tag.len() implies distinct_keys(#[trigger] a2.edges[u]) by {}
    if !is_unread(a.pers[v]) {
        assert forall|b: int| 2 <= b < 16 implies #[trigger] group_ok(a2, b) by { assert(group_ok(a, b)); }
        assert forall|u: int| 0 <= u < a2.tag.len() implies #[trigger] in_own_group(a2, u) by { assert(in_own_group(a, u)); }
    } else if t < 2 {
        assert forall|b: int| 2 <= b < 16 implies #[trigger] group_ok(a2, b) by {
            assert(group_ok(a, b));
            lemma_ungrouped_not_member(a, v, b);
            let ms = a.members[b];
            assert forall|i: int| 0 <= i < ms.len() implies is_unread(a.pers[(#[trigger] ms[i]) as int]) == is_unread(a2.pers[ms[i] as int]) by {}
            lemma_count_frame(a.pers, a2.pers, ms);
        }
        assert forall|u: int| 0 <= u < a2.tag.len() implies #[trigger] in_own_group(a2, u) by { assert(in_own_group(a, u)); }
    } else {
        // grouped and unread: the counter of group t drops by one
        assert(group_ok(a, t));
        assert(in_own_group(a, v));
        lemma_count_flip(a.pers, a2.pers, a.members[t], v as usize);
        assert forall|b: int| 2 <= b < 16 implies #[trigger] group_ok(a2, b) by {
            assert(group_ok(a, b));
            let ms = a.members[b];
            if b != t {
                lemma_other_group_not_member(a, v, b);
                assert forall|i: int| 0 <= i < ms.len() implies is_unread(a.pers[(#[trigger] ms[i]) as int]) == is_unread(a2.pers[ms[i] as int]) by {}
                lemma_count_frame(a.pers, a2.pers, ms);
                if data_collects(a, v) {
                    assert forall|i: int| 0 <= i < ms.len() implies a2.tag[(#[trigger] ms[i]) as int] == b by {}
                }
            } else if data_collects(a, v) {
                assert(a2.members[b] =~= Seq::<usize>::empty());
            }
        }
        assert forall|u: int| 0 <= u < a2.tag.len() implies #[trigger] in_own_group(a2, u) by { assert(in_own_group(a, u)); }
    }
}

pub proof fn lemma_bind_inv(a: A, a2: A, v1: int, v2: int, l: Label, n: int)
    requires inv(a), bind_pre(a, v1, v2, l, n), bind_gc(a, a2, v1, v2), edges_ok(a2), a2.next_v >= 0,
    ensures inv(a2),
{
    let t1 = a.tag[v1];
    let t2 = a.tag[v2];
    assert forall|u: int| 0 <= u < a2.tag.len() implies distinct_keys(#[trigger] a2.edges[u]) by {}
    if t1 == 1 && t2 == 1 {
        let b = first_free(a);
        lemma_first_free_props(a.members, 2);
        assert(group_ok(a, b));
        assert(a.members[b] =~= Seq::<usize>::empty());
        assert forall|c: int| 2 <= c < 16 implies #[trigger] group_ok(a2, c) by {
            assert(group_ok(a, c));
            if c == b {
                let ms = a2.members[b];
                assert(ms =~= seq![v1 as usize, v2 as usize]);
                assert(ms.drop_last() =~= seq![v1 as usize]);
                assert(ms.drop_last().drop_last() =~= Seq::<usize>::empty());
                assert(count_unread(a2.pers, ms.drop_last().drop_last()) == 0);
                assert(count_unread(a2.pers, ms.drop_last()) == u01(a2.pers, v1));
                assert(count_unread(a2.pers, ms) == u01(a2.pers, v1) + u01(a2.pers, v2));
            } else {
                lemma_ungrouped_not_member(a, v1, c);
                lemma_ungrouped_not_member(a, v2, c);
            }
        }
        assert forall|u: int| 0 <= u < a2.tag.len() implies #[trigger] in_own_group(a2, u) by {
            assert(in_own_group(a, u));
            if u == v1 { assert(a2.members[b][0] == v1 as usize); }
            else if u == v2 { assert(a2.members[b][1] == v2 as usize); }
            else if a.tag[u] >= 2 {
                assert(a.tag[u] != b) by { if a.tag[u] == b { assert(a.members[b].contains(u as usize)); } }
            }
        }
    } else if t1 == 1 {
        lemma_join_inv(a, a2, v1, t2);
    } else if t2 == 1 {
        lemma_join_inv(a, a2, v2, t1);
    } else {
        assert forall|c: int| 2 <= c < 16 implies #[trigger] group_ok(a2, c) by { assert(group_ok(a, c)); }
        assert forall|u: int| 0 <= u < a2.tag.len() implies #[trigger] in_own_group(a2, u) by { assert(in_own_group(a, u)); }
    }
}

/// the GC part of "ungrouped vertex w joins group g"
pub proof fn lemma_join_inv(a: A, a2: A, w: int, g: int)
    requires
        inv(a), 0 <= w < a.tag.len(), a.tag[w] == 1, 2 <= g < 16, a.members[g].len() < 16,
        a2.pers =~~= a.pers, a2.data.len() == a.data.len(), a2.edges.len() == a.edges.len(),
        a2.tag =~~= a.tag.update(w, g),
        a2.members =~~= a.members.update(g, a.members[g].push(w as usize)),
        a2.counter =~~= a.counter.update(g, a.counter[g] + u01(a.pers, w)),
    ensures
        forall|c: int| 2 <= c < 16 ==> #[trigger] group_ok(a2, c),
        forall|u: int| 0 <= u < a2.tag.len() ==> #[trigger] in_own_group(a2, u),
        a2.members[0] =~= seq![0usize], a2.members[1] =~= seq![0usize],
        forall|v: int| 0 <= v < a2.tag.len() ==> 0 <= #[trigger] a2.tag[v] < 16,
        a2.members.len() == 16, a2.counter.len() == 16, a2.pers.len() == a2.tag.len(),
{
    assert forall|c: int| 2 <= c < 16 implies #[trigger] group_ok(a2, c) by {
        assert(group_ok(a, c));
        lemma_ungrouped_not_member(a, w, c);
        if c == g {
            lemma_count_push(a.pers, a.members[g], w as usize);
        }
    }
    assert forall|u: int| 0 <= u < a2.tag.len() implies #[trigger] in_own_group(a2, u) by {
        assert(in_own_group(a, u));
        if u == w {
            assert(a2.members[g][a.members[g].len() as int] == w as usize);
        } else if a.tag[u] >= 2 {
            let k = choose|k: int| 0 <= k < a.members[a.tag[u]].len() && a.members[a.tag[u]][k] == u as usize;
            assert(a2.members[a.tag[u]][k] == u as usize);
        }
    }
}

/// the content component keeps labels distinct (premise `edges_ok(a2)` of the invariant lemmas)
pub proof fn lemma_edges_ok_same(a: A, a2: A)
    requires inv(a), a2.edges =~~= a.edges,
    ensures edges_ok(a2),
{
    assert forall|v: int| 0 <= v < a2.edges.len() implies distinct_keys(#[trigger] a2.edges[v]) by { assert(distinct_keys(a.edges[v])); }
}

pub proof fn lemma_edges_ok_add(a: A, a2: A, v: int)
    requires inv(a), 0 <= v < a.tag.len(), add_content(a, a2, v),
    ensures edges_ok(a2),
{
    assert forall|u: int| 0 <= u < a2.edges.len() implies distinct_keys(#[trigger] a2.edges[u]) by { assert(distinct_keys(a.edges[u])); }
}

pub proof fn lemma_edges_ok_bind(a: A, a2: A, v1: int, v2: int, l: Label)
    requires inv(a), 0 <= v1 < a.tag.len(), bind_content(a, a2, v1, v2, l),
    ensures edges_ok(a2),
{
    assert forall|u: int| 0 <= u < a2.edges.len() implies distinct_keys(#[trigger] a2.edges[u]) by {
        assert(distinct_keys(a.edges[u]));
        if u == v1 { lemma_upsert_distinct(a.edges[v1], l, v2 as usize); }
    }
}

pub proof fn lemma_next_id_inv(a: A, a2: A, r: int)
    requires inv(a), next_id_step(a, a2, r),
    ensures inv(a2),
{
    assert forall|b: int| 2 <= b < 16 implies #[trigger] group_ok(a2, b) by { assert(group_ok(a, b)); }
    assert forall|u: int| 0 <= u < a2.tag.len() implies #[trigger] in_own_group(a2, u) by { assert(in_own_group(a, u)); }
    assert forall|u: int| 0 <= u < a2.tag.len() implies distinct_keys(#[trigger] a2.edges[u]) by { assert(distinct_keys(a.edges[u])); }
}
