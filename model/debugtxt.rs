// ======================================================================================
// What Debug/Display and v_print() print (C20, the part within reach): a function of the abstract
// graph - one line per PRESENT vertex in ascending id order carrying its id, one attribute per edge
// (label and target, in stored order) and its data iff it has any.  format!/join are uninterpreted
// functions of their literal and arguments (fmt_text / joined), so "the same text" means "built from
// the same values".  Pure spec/proof.
// ======================================================================================

/// literals of the code's Debug::fmt (spliced by content): vertex line, edge attribute, attribute separator
pub struct DbgLits { pub vlit: Seq<char>, pub elit: Seq<char>, pub sep: Seq<char>, pub nl: Seq<char> }

/// the attribute texts of vertex i: one per edge in stored order, then the data text iff the vertex has data
pub closed spec fn dbg_attrs(a: A, i: int, l: DbgLits) -> Seq<Seq<char>> {
    let es = Seq::new(a.edges[i].len(), |k: int| fmt_text(l.elit, seq![label_text(a.edges[i][k].0), dec_text(a.edges[i][k].1)]));
    if a.pers[i] != Persistence::Empty { es.push(hex_text(a.data[i])) } else { es }
}

pub closed spec fn dbg_vline(a: A, i: int, l: DbgLits) -> Seq<char> {
    fmt_text(l.vlit, seq![dec_text(i as usize), joined(dbg_attrs(a, i, l), l.sep)])
}

/// the lines of the present ids below n, in ascending id order
pub closed spec fn dbg_vlines_upto(a: A, n: int, l: DbgLits) -> Seq<Seq<char>>
    decreases n
{
    if n <= 0 { Seq::<Seq<char>>::empty() } else {
        let r = dbg_vlines_upto(a, n - 1, l);
        if a.tag[n - 1] != 0 { r.push(dbg_vline(a, n - 1, l)) } else { r }
    }
}

/// what Debug::fmt appends to the formatter: the vertex lines, then the lines of the groups (left open), joined by the
/// code's line separator
pub closed spec fn debug_post(a: A, before: Seq<char>, after: Seq<char>, l: DbgLits) -> bool {
    exists|rest: Seq<Seq<char>>| after == before + #[trigger] joined(dbg_vlines_upto(a, a.tag.len() as int, l) + rest, l.nl)
}

/// the same with the literals left open (for callers that do not see the literals: Display)
pub closed spec fn debug_post_some(a: A, before: Seq<char>, after: Seq<char>) -> bool {
    exists|l: DbgLits| #[trigger] debug_post(a, before, after, l)
}

pub broadcast proof fn lemma_debug_post_some(a: A, before: Seq<char>, after: Seq<char>, l: DbgLits)
    requires #[trigger] debug_post(a, before, after, l),
    ensures debug_post_some(a, before, after),
{
}

/// C20: exactly the present vertices are listed - one line per present vertex, none for an absent id
//# L20-one-line-per-present-vertex: C20
pub proof fn lemma_dbg_vlines_count(a: A, n: int, l: DbgLits)
    requires 0 <= n <= a.tag.len(),
    ensures dbg_vlines_upto(a, n, l).len() == present_count_upto(a.tag, n),
    decreases n,
{
    if n > 0 { lemma_dbg_vlines_count(a, n - 1, l); }
}
//#end

/// C20: every edge and the data of a present vertex appear in its line - the attribute list has one entry per edge,
/// plus one iff the vertex has data
//# L20-all-edges-and-data-of-a-vertex: C20
proof fn lemma_dbg_attrs_count(a: A, i: int, l: DbgLits)
    requires 0 <= i < a.tag.len(),
    ensures dbg_attrs(a, i, l).len() == a.edges[i].len() + (if a.pers[i] != Persistence::Empty { 1int } else { 0int }),
{
}
//#end

/// what v_print(v) returns: the id, the data marker exactly when v has data, and exactly v's labels in stored order
pub closed spec fn vprint_post(a: A, v: int, r: Seq<char>, lit: Seq<char>, marker: Seq<char>, sep: Seq<char>) -> bool {
    r == fmt_text(lit, seq![dec_text(v as usize),
        if a.pers[v] != Persistence::Empty { marker } else { ""@ },
        joined(Seq::new(a.edges[v].len(), |k: int| label_text(a.edges[v][k].0)), sep)])
}
