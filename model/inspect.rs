// ======================================================================================
// What inspect() lists (C20): one line per edge of every vertex it expands; it expands a vertex at most
// once (the `seen` set), so the number of lines is the number of edges of the expanded vertices, and the
// recursion terminates on any graph because `seen` only grows and holds ids below the capacity.
// Pure spec/proof.
// ======================================================================================

/// every id in the set is below the capacity
pub open spec fn seen_ok(s: Set<usize>, cap: int) -> bool {
    forall|x: usize| #[trigger] s.contains(x) ==> x < cap
}

/// the number of edges of the vertices of X with an id below n
pub open spec fn esum(a: A, x: Set<usize>, n: int) -> int
    decreases n
{
    if n <= 0 { 0 } else {
        esum(a, x, n - 1) + (if x.contains((n - 1) as usize) { a.edges[n - 1].len() as int } else { 0int })
    }
}

/// esum looks at membership below n only
pub proof fn lemma_esum_ext(a: A, x: Set<usize>, y: Set<usize>, n: int)
    requires n <= usize::MAX, forall|u: usize| u < n ==> (x.contains(u) <==> y.contains(u)),
    ensures esum(a, x, n) == esum(a, y, n),
    decreases n,
{
    if n > 0 { lemma_esum_ext(a, x, y, n - 1); }
}

/// a vertex that was not counted yet adds its edges
pub proof fn lemma_esum_insert(a: A, x: Set<usize>, v: usize, n: int)
    requires 0 <= n <= usize::MAX, !x.contains(v),
    ensures esum(a, x.insert(v), n) == esum(a, x, n) + (if v < n { a.edges[v as int].len() as int } else { 0int }),
    decreases n,
{
    if n > 0 { lemma_esum_insert(a, x, v, n - 1); }
}

/// disjoint sets add up
pub proof fn lemma_esum_disjoint(a: A, x: Set<usize>, y: Set<usize>, n: int)
    requires 0 <= n <= usize::MAX, forall|u: usize| !(x.contains(u) && y.contains(u)),
    ensures esum(a, x.union(y), n) == esum(a, x, n) + esum(a, y, n),
    decreases n,
{
    if n > 0 { lemma_esum_disjoint(a, x, y, n - 1); }
}

pub proof fn lemma_esum_nonneg(a: A, x: Set<usize>, n: int)
    ensures esum(a, x, n) >= 0,
    decreases n,
{
    if n > 0 { lemma_esum_nonneg(a, x, n - 1); }
}

pub proof fn lemma_esum_zero(a: A, n: int)
    ensures esum(a, Set::<usize>::empty(), n) == 0,
    decreases n,
{
    if n > 0 { lemma_esum_zero(a, n - 1); }
}

/// targets of stored edges are ids below the capacity (part of targets_ok)
pub proof fn lemma_target_in_range(a: A, u: int, j: int)
    requires targets_ok(a), 0 <= u < a.edges.len(), 0 <= j < a.edges[u].len(),
    ensures a.edges[u][j].1 < a.edges.len(),
{
}

// -------- which vertices are expanded: exactly those reachable from the start vertex --------

/// every edge target of every vertex of x is in s
pub open spec fn closed_in(a: A, x: Set<usize>, s: Set<usize>) -> bool {
    forall|u: usize, j: int| x.contains(u) && u < a.edges.len() && 0 <= j < a.edges[u as int].len()
        ==> s.contains((#[trigger] a.edges[u as int][j]).1)
}

/// every id of s was in s0 already or is reachable from v
pub open spec fn from_v(a: A, v: usize, s0: Set<usize>, s: Set<usize>) -> bool {
    forall|u: usize| #[trigger] s.contains(u) ==> s0.contains(u) || reachable(a, pf_all(), v, u)
}

/// the j-th stored edge of u is an (accepted) edge
pub proof fn lemma_edge_acc(a: A, u: usize, j: int)
    requires u < a.edges.len(), 0 <= j < a.edges[u as int].len(),
    ensures acc(a, pf_all(), u, a.edges[u as int][j].1),
{
    let w = a.edges[u as int][j].1;
    assert((a.edges[u as int][j]).1 == w && pf_all()(u, w, a.edges[u as int][j].0));
}

/// what the nested call (started at the target t of an edge of v) reached is reachable from v
pub proof fn lemma_from_v_nested(a: A, v: usize, t: usize, s0: Set<usize>, sn0: Set<usize>, sn1: Set<usize>, sn2: Set<usize>)
    requires
        from_v(a, v, s0, sn0), sn1.subset_of(sn0.insert(t)), from_v(a, t, sn1, sn2), acc(a, pf_all(), v, t),
    ensures from_v(a, v, s0, sn2),
{
    lemma_reach_self(a, pf_all(), v);
    lemma_reach_step(a, pf_all(), v, v, t);
    assert forall|u: usize| #[trigger] sn2.contains(u) implies s0.contains(u) || reachable(a, pf_all(), v, u) by {
        if sn1.contains(u) {
            assert(sn0.insert(t).contains(u));
            if u != t { assert(sn0.contains(u)); }
        } else {
            lemma_reach_prepend(a, pf_all(), v, t, u);
        }
    }
}

/// the number of edges of the vertices reachable from v with an id below n
pub open spec fn esum_reach(a: A, v: usize, n: int) -> int
    decreases n
{
    if n <= 0 { 0 } else {
        esum_reach(a, v, n - 1) + (if reachable(a, pf_all(), v, (n - 1) as usize) { a.edges[n - 1].len() as int } else { 0int })
    }
}

proof fn lemma_esum_is_reach(a: A, v: usize, f: Set<usize>, n: int)
    requires n <= usize::MAX, forall|u: usize| u < n ==> (f.contains(u) <==> reachable(a, pf_all(), v, u)),
    ensures esum(a, f, n) == esum_reach(a, v, n),
    decreases n,
{
    if n > 0 { lemma_esum_is_reach(a, v, f, n - 1); }
}

/// C20: a set that holds v, is closed under edges and holds only what is reachable from v IS the set of vertices
/// reachable from v - so the lines of inspect(v) are one per edge of every vertex reachable from v
//# L20-expanded-set-is-exactly-the-reachable-set: C20
pub proof fn lemma_reach_exact(a: A, v: usize, f: Set<usize>, n: int)
    requires
        n == a.edges.len(), n <= usize::MAX, f.contains(v), closed_in(a, f, f), from_v(a, v, Set::<usize>::empty(), f),
        seen_ok(f, n),
    ensures
        forall|u: usize| f.contains(u) <==> reachable(a, pf_all(), v, u),
        esum(a, f, n) == esum_reach(a, v, n),
{
    assert forall|x: usize, y: usize| f.contains(x) && #[trigger] acc(a, pf_all(), x, y) implies f.contains(y) by {
        let j = choose|j: int| 0 <= j < a.edges[x as int].len() && (#[trigger] a.edges[x as int][j]).1 == y && pf_all()(x, y, a.edges[x as int][j].0);
        assert(f.contains((a.edges[x as int][j]).1));
    }
    assert forall|u: usize| f.contains(u) <==> reachable(a, pf_all(), v, u) by {
        if reachable(a, pf_all(), v, u) { lemma_closed_contains_reach(a, pf_all(), v, f, u); }
    }
    lemma_esum_is_reach(a, v, f, n);
}
//#end

/// a text wrapped by format! calls with one argument each (the re-indentation of the lines of a nested call), innermost first
pub open spec fn wrapped(ws: Seq<Seq<char>>, x: Seq<char>) -> Seq<char>
    decreases ws.len(),
{
    if ws.len() == 0 { x } else { fmt_text(ws.last(), seq![wrapped(ws.drop_last(), x)]) }
}
/// format!(literal, label, target, marker)
pub open spec fn edge_text(lit: Seq<char>, l: Label, t: usize, m: Seq<char>) -> Seq<char> {
    fmt_text(lit, seq![label_text(l), dec_text(t), m])
}
/// the line names an edge of the graph: format!(some literal, label, target, some marker), re-indented any number of times
#[verifier::opaque]
pub open spec fn is_edge_line(a: A, line: Seq<char>) -> bool {
    exists|u: int, j: int, lit: Seq<char>, m: Seq<char>, ws: Seq<Seq<char>>| #![trigger wrapped(ws, edge_text(lit, a.edges[u][j].0, a.edges[u][j].1, m))]
        0 <= u < a.edges.len() && 0 <= j < a.edges[u].len()
        && line == wrapped(ws, edge_text(lit, a.edges[u][j].0, a.edges[u][j].1, m))
}
pub open spec fn all_edge_lines(a: A, lines: Seq<Seq<char>>) -> bool {
    forall|i: int| 0 <= i < lines.len() ==> is_edge_line(a, #[trigger] lines[i])
}
pub proof fn lemma_own_line(a: A, u: int, j: int, lit: Seq<char>, m: Seq<char>)
    requires 0 <= u < a.edges.len(), 0 <= j < a.edges[u].len(),
    ensures is_edge_line(a, edge_text(lit, a.edges[u][j].0, a.edges[u][j].1, m)),
{
    reveal(is_edge_line);
    let x = edge_text(lit, a.edges[u][j].0, a.edges[u][j].1, m);
    assert(wrapped(Seq::<Seq<char>>::empty(), x) == x);
}
pub proof fn lemma_wrap_line(a: A, line: Seq<char>, w: Seq<char>)
    requires is_edge_line(a, line),
    ensures is_edge_line(a, fmt_text(w, seq![line])),
{
    reveal(is_edge_line);
    let (u, j, lit, m, ws) = choose|u: int, j: int, lit: Seq<char>, m: Seq<char>, ws: Seq<Seq<char>>| #![trigger wrapped(ws, edge_text(lit, a.edges[u][j].0, a.edges[u][j].1, m))]
        0 <= u < a.edges.len() && 0 <= j < a.edges[u].len()
        && line == wrapped(ws, edge_text(lit, a.edges[u][j].0, a.edges[u][j].1, m));
    let x = edge_text(lit, a.edges[u][j].0, a.edges[u][j].1, m);
    let ws2 = ws.push(w);
    assert(ws2.drop_last() =~= ws);
    assert(wrapped(ws2, x) == fmt_text(w, seq![wrapped(ws, x)]));
}

/// what inspect(v) returns: a header with the id, then one line per edge of every vertex reachable from v, each of them the
/// line of an edge of the graph
pub closed spec fn inspect_post(a: A, v: usize, text: Seq<char>, lit: Seq<char>, nl: Seq<char>) -> bool {
    exists|lines: Seq<Seq<char>>| text == fmt_text(lit, seq![dec_text(v), #[trigger] joined(lines, nl)])
        && lines.len() == esum_reach(a, v, a.edges.len() as int)
        && all_edge_lines(a, lines)
}
