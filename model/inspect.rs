// ======================================================================================
// What inspect() lists (C20): one line per edge of every vertex it expands; it expands a vertex at most
// once (the `seen` set), so the number of lines is the number of edges of the expanded vertices, and the
// recursion terminates on any graph because `seen` only grows and holds ids below the capacity.
// Pure spec/proof.
// ======================================================================================

/// every id in the set is below the capacity
pub open spec fn seen_ok(s: Set<usize>, cap: int) -> bool {
    forall|x: usize| #[trigger] s.contains(x) ==> x < cap
}

/// the number of edges of the vertices of X with an id below n
pub open spec fn esum(a: A, x: Set<usize>, n: int) -> int
    decreases n
{
    if n <= 0 { 0 } else {
        esum(a, x, n - 1) + (if x.contains((n - 1) as usize) { a.edges[n - 1].len() as int } else { 0int })
    }
}

/// esum looks at membership below n only
pub proof fn lemma_esum_ext(a: A, x: Set<usize>, y: Set<usize>, n: int)
    requires n <= usize::MAX, forall|u: usize| u < n ==> (x.contains(u) <==> y.contains(u)),
    ensures esum(a, x, n) == esum(a, y, n),
    decreases n,
{
    if n > 0 { lemma_esum_ext(a, x, y, n - 1); }
}

/// a vertex that was not counted yet adds its edges
pub proof fn lemma_esum_insert(a: A, x: Set<usize>, v: usize, n: int)
    requires 0 <= n <= usize::MAX, !x.contains(v),
    ensures esum(a, x.insert(v), n) == esum(a, x, n) + (if v < n { a.edges[v as int].len() as int } else { 0int }),
    decreases n,
{
    if n > 0 { lemma_esum_insert(a, x, v, n - 1); }
}

/// disjoint sets add up
pub proof fn lemma_esum_disjoint(a: A, x: Set<usize>, y: Set<usize>, n: int)
    requires 0 <= n <= usize::MAX, forall|u: usize| !(x.contains(u) && y.contains(u)),
    ensures esum(a, x.union(y), n) == esum(a, x, n) + esum(a, y, n),
    decreases n,
{
    if n > 0 { lemma_esum_disjoint(a, x, y, n - 1); }
}

pub proof fn lemma_esum_nonneg(a: A, x: Set<usize>, n: int)
    ensures esum(a, x, n) >= 0,
    decreases n,
{
    if n > 0 { lemma_esum_nonneg(a, x, n - 1); }
}

pub proof fn lemma_esum_zero(a: A, n: int)
    ensures esum(a, Set::<usize>::empty(), n) == 0,
    decreases n,
{
    if n > 0 { lemma_esum_zero(a, n - 1); }
}

/// targets of stored edges are ids below the capacity (part of targets_ok)
pub proof fn lemma_target_in_range(a: A, u: int, j: int)
    requires targets_ok(a), 0 <= u < a.edges.len(), 0 <= j < a.edges[u].len(),
    ensures a.edges[u][j].1 < a.edges.len(),
{
}
