// ======================================================================================
// What to_xml() must hand to the XML builder (C18): an element tree that is a function of the
// abstract graph - one <v> per PRESENT vertex in ascending id order, its edges in label order,
// its data if it has any.  Pure spec/proof.
// ======================================================================================

pub closed spec fn x_elem(name: Seq<char>, attrs: Seq<(Seq<char>, Seq<char>)>, kids: Seq<XNode>, text: Option<Seq<char>>) -> XNode {
    XNode { name, attrs, kids, text }
}

pub closed spec fn xe_node(e: (Label, usize)) -> XNode {
    x_elem("e"@, seq![("a"@, label_text(e.0)), ("to"@, dec_text(e.1))], Seq::empty(), None)
}

pub closed spec fn e_nodes(s: Seq<(Label, usize)>) -> Seq<XNode> {
    Seq::new(s.len(), |i: int| xe_node(s[i]))
}

pub closed spec fn xdata_node(d: Seq<u8>) -> XNode {
    x_elem("data"@, Seq::empty(), Seq::empty(), Some(replaced(hex_text(d), '-', " "@)))
}

pub closed spec fn v_kids(a: A, i: int) -> Seq<XNode> {
    let es = e_nodes(micromap::sorted_pairs(a.edges[i]));
    if a.pers[i] != Persistence::Empty { es.push(xdata_node(a.data[i])) } else { es }
}

pub closed spec fn xv_node(a: A, i: int) -> XNode {
    x_elem("v"@, seq![("id"@, dec_text(i as usize))], v_kids(a, i), None)
}

/// the <v> elements of the present ids below n, in ascending id order
pub closed spec fn v_nodes_upto(a: A, n: int) -> Seq<XNode>
    decreases n
{
    if n <= 0 { Seq::<XNode>::empty() } else {
        let r = v_nodes_upto(a, n - 1);
        if a.tag[n - 1] != 0 { r.push(xv_node(a, n - 1)) } else { r }
    }
}

pub closed spec fn xml_doc(a: A) -> XNode {
    x_elem("sodg"@, Seq::empty(), v_nodes_upto(a, a.tag.len() as int), None)
}

/// absent ids contribute nothing
pub proof fn lemma_v_nodes_skip(a: A, i: int, j: int)
    requires 0 <= i <= j <= a.tag.len(), forall|u: int| i <= u < j ==> a.tag[u] == 0,
    ensures v_nodes_upto(a, j) == v_nodes_upto(a, i),
    decreases j - i,
{
    if i < j { lemma_v_nodes_skip(a, i, j - 1); }
}

/// one <v> per present vertex and none for absent ids
pub proof fn lemma_v_nodes_count(a: A, n: int)
    requires 0 <= n <= a.tag.len(),
    ensures v_nodes_upto(a, n).len() == present_count_upto(a.tag, n),
    decreases n,
{
    if n > 0 { lemma_v_nodes_count(a, n - 1); }
}

/// the two graphs have the same present ids, and each present id has the same edge SET, the same data and the same
/// "has data" status in both
spec fn same_present_graph(a: A, b: A) -> bool {
    &&& a.tag.len() == b.tag.len()
    &&& forall|i: int| 0 <= i < a.tag.len() ==> ((#[trigger] a.tag[i]) != 0 <==> b.tag[i] != 0)
    &&& forall|i: int| 0 <= i < a.tag.len() && (#[trigger] a.tag[i]) != 0 ==> a.edges[i].to_multiset() == b.edges[i].to_multiset()
            && (a.pers[i] != Persistence::Empty <==> b.pers[i] != Persistence::Empty)
            && (a.pers[i] != Persistence::Empty ==> a.data[i] == b.data[i])
}

/// the document depends only on which ids are present, on their edge SETS (not the insertion order), on their data and
/// on whether they have data: two graphs that agree on these produce the same document, however they were built
proof fn lemma_xml_doc_determined(a: A, b: A)
    requires inv(a), inv(b), same_present_graph(a, b),
    ensures xml_doc(a) == xml_doc(b),
{
    lemma_v_nodes_determined(a, b, a.tag.len() as int);
}

proof fn lemma_v_nodes_determined(a: A, b: A, n: int)
    requires inv(a), inv(b), same_present_graph(a, b), 0 <= n <= a.tag.len(),
    ensures v_nodes_upto(a, n) == v_nodes_upto(b, n),
    decreases n,
{
    if n > 0 {
        lemma_v_nodes_determined(a, b, n - 1);
        let i = n - 1;
        if a.tag[i] != 0 {
            assert(a.edges[i].to_multiset() == b.edges[i].to_multiset());
            assert(distinct_keys(a.edges[i]));
            micromap::axiom_sorted_pairs_canonical(a.edges[i], b.edges[i]);
            assert(v_kids(a, i) == v_kids(b, i));
        }
    }
}

// -------------------------------- the vertex loop of to_xml --------------------------------

/// the items the vertex loop will see: present slots with their values, ascending, and every slot that is not among
/// them is absent
#[verifier::opaque]
pub closed spec fn xml_items<V>(rem: Seq<(usize, &V)>, vs: Seq<Option<V>>, a: A) -> bool {
    &&& forall|k: int| 0 <= k < rem.len() ==> 0 <= (#[trigger] rem[k]).0 < vs.len() && Some(*rem[k].1) == vs[rem[k].0 as int] && a.tag[rem[k].0 as int] != 0
    &&& forall|k: int, l: int| 0 <= k < l < rem.len() ==> (#[trigger] rem[k]).0 < (#[trigger] rem[l]).0
    &&& forall|i: int| 0 <= i < vs.len() && (forall|k: int| 0 <= k < rem.len() ==> (#[trigger] rem[k]).0 != i) ==> a.tag[i] == 0
}

/// the first id not yet accounted for when k items have been emitted
pub closed spec fn xml_next_id<V>(rem: Seq<(usize, &V)>, k: int) -> int {
    if k <= 0 { 0 } else { rem[k - 1].0 as int + 1 }
}

/// the ids between the previous item and item k (or the end) are absent
pub proof fn lemma_xml_gap<V>(rem: Seq<(usize, &V)>, vs: Seq<Option<V>>, a: A, k: int)
    requires xml_items(rem, vs, a), 0 <= k <= rem.len(), a.tag.len() == vs.len(),
    ensures
        0 <= xml_next_id(rem, k) <= vs.len(),
        k < rem.len() ==> xml_next_id(rem, k) <= rem[k].0 && forall|u: int| xml_next_id(rem, k) <= u < rem[k].0 ==> a.tag[u] == 0,
        k < rem.len() ==> rem[k].0 < vs.len() && Some(*rem[k].1) == vs[rem[k].0 as int] && a.tag[rem[k].0 as int] != 0,
        k == rem.len() ==> forall|u: int| xml_next_id(rem, k) <= u < vs.len() ==> a.tag[u] == 0,
{
    reveal(xml_items);
    let lo = xml_next_id(rem, k);
    if k > 0 { assert(rem[k - 1].0 < vs.len()); }
    if k < rem.len() && k > 0 { assert(rem[k - 1].0 < rem[k].0); }
    assert forall|u: int| lo <= u < vs.len() && (k < rem.len() ==> u < rem[k].0) implies a.tag[u] == 0 by {
        assert forall|j: int| 0 <= j < rem.len() implies (#[trigger] rem[j]).0 != u by {
            if j < k {
                if j < k - 1 { assert(rem[j].0 < rem[k - 1].0); }
            } else {
                if j > k { assert(rem[k].0 < rem[j].0); }
            }
        }
    }
}

// -------------------------------- to_dot(): how many lines --------------------------------

/// one node line per PRESENT vertex below n plus one line per edge of such a vertex
pub closed spec fn dot_lines_upto(a: A, n: int) -> int
    decreases n
{
    if n <= 0 { 0 } else {
        dot_lines_upto(a, n - 1) + (if a.tag[n - 1] != 0 { 1 + a.edges[n - 1].len() as int } else { 0 })
    }
}

pub proof fn lemma_dot_skip(a: A, i: int, j: int)
    requires 0 <= i <= j <= a.tag.len(), forall|u: int| i <= u < j ==> a.tag[u] == 0,
    ensures dot_lines_upto(a, j) == dot_lines_upto(a, i),
    decreases j - i,
{
    if i < j { lemma_dot_skip(a, i, j - 1); }
}

pub proof fn lemma_dot_lines_nonneg(a: A, n: int)
    ensures dot_lines_upto(a, n) >= 0,
    decreases n,
{
    if n > 0 { lemma_dot_lines_nonneg(a, n - 1); }
}
