// abstraction function and representation invariant of Sodg<N> (shared by the units that see the struct)
impl<const N: usize> Sodg<N> {
    /// container shape: 16 counters, 16 member lists, every slot of the three maps filled
    pub closed spec fn shape(&self) -> bool {
        &&& self.stores.view().len() == 16
        &&& self.branches.view().len() == 16
        &&& forall|i: int| 0 <= i < 16 ==> (#[trigger] self.stores.view()[i]).is_some()
        &&& forall|i: int| 0 <= i < 16 ==> (#[trigger] self.branches.view()[i]).is_some()
        &&& forall|i: int| 0 <= i < self.vertices.view().len() ==> (#[trigger] self.vertices.view()[i]).is_some()
    }
    pub closed spec fn cap(&self) -> int { self.vertices.view().len() as int }
    /// abstraction function
    pub closed spec fn abs(&self) -> A {
        A {
            tag: Seq::new(self.vertices.view().len(), |i: int| self.vertices.view()[i].unwrap().branch as int),
            pers: Seq::new(self.vertices.view().len(), |i: int| self.vertices.view()[i].unwrap().persistence),
            data: Seq::new(self.vertices.view().len(), |i: int| self.vertices.view()[i].unwrap().data.view()),
            edges: Seq::new(self.vertices.view().len(), |i: int| self.vertices.view()[i].unwrap().edges.view()),
            members: Seq::new(16, |b: int| self.branches.view()[b].unwrap().view()),
            counter: Seq::new(16, |b: int| self.stores.view()[b].unwrap() as int),
            next_v: self.next_v as int,
        }
    }
    pub closed spec fn wf(&self) -> bool { self.shape() && inv(self.abs()) }
}
