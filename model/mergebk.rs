// ======================================================================================
// Bookkeeping of merge(): which vertices of the right graph have been mapped (C12).  Pure spec/proof.
// ======================================================================================

/// no edge of a present vertex dangles: its target is an id below the capacity and present
/// (the property's quantifier: the right graph is made of trees of present vertices)
pub closed spec fn closed_present(a: A) -> bool {
    forall|u: int, j: int| 0 <= u < a.tag.len() && a.tag[u] != 0 && 0 <= j < a.edges[u].len()
        ==> (#[trigger] a.edges[u][j]).1 < a.tag.len() && a.tag[a.edges[u][j].1 as int] != 0
}

/// every key of the right-to-left mapping is a present vertex of the right graph
pub closed spec fn keys_present(a: A, m: Map<usize, usize>) -> bool {
    forall|k: usize| #[trigger] m.contains_key(k) ==> k < a.tag.len() && a.tag[k as int] != 0
}

/// the set of present ids below n
pub closed spec fn pset_upto(tag: Seq<int>, n: int) -> Set<usize>
    decreases n
{
    if n <= 0 { Set::<usize>::empty() } else {
        let s = pset_upto(tag, n - 1);
        if tag[n - 1] != 0 { s.insert((n - 1) as usize) } else { s }
    }
}

pub proof fn lemma_pset(tag: Seq<int>, n: int)
    requires 0 <= n <= tag.len() <= usize::MAX,
    ensures
        pset_upto(tag, n).len() == present_count_upto(tag, n),
        forall|v: usize| #[trigger] pset_upto(tag, n).contains(v) <==> (v < n && tag[v as int] != 0),
    decreases n,
{
    if n > 0 {
        lemma_pset(tag, n - 1);
        let s = pset_upto(tag, n - 1);
        assert(!s.contains((n - 1) as usize));
    }
}

/// C12, the counting argument: the keys are present right vertices; if there are as many keys as present right
/// vertices, every present right vertex is a key
pub proof fn lemma_complete(a: A, m: Map<usize, usize>)
    requires keys_present(a, m), a.tag.len() <= usize::MAX, m.dom().len() == present_count(a),
    ensures forall|v: int| #[trigger] present(a, v) ==> m.contains_key(v as usize),
{
    let p = pset_upto(a.tag, a.tag.len() as int);
    lemma_pset(a.tag, a.tag.len() as int);
    assert(m.dom().subset_of(p)) by {
        assert forall|k: usize| m.dom().contains(k) implies p.contains(k) by { assert(m.contains_key(k)); }
    }
    assert forall|v: int| #[trigger] present(a, v) implies m.contains_key(v as usize) by {
        let vu = v as usize;
        if !m.contains_key(vu) {
            assert(p.contains(vu));
            assert(m.dom().subset_of(p.remove(vu))) by {
                assert forall|k: usize| m.dom().contains(k) implies p.remove(vu).contains(k) by { assert(m.contains_key(k)); }
            }
            vstd::set_lib::lemma_len_subset(m.dom(), p.remove(vu));
            assert(false);
        }
    }
}

/// the keys are ids below the capacity, so there are at most `cap` of them (termination measure of merge_rec)
pub proof fn lemma_keys_bound(a: A, m: Map<usize, usize>)
    requires keys_present(a, m),
    ensures m.dom().len() <= a.tag.len(),
{
    assert forall|x: usize| m.dom().contains(x) implies x < a.tag.len() by { assert(m.contains_key(x)); }
    lemma_bounded_set(m.dom(), a.tag.len());
}

/// every key is an old key or a right vertex reachable from `root`
pub closed spec fn keys_from(a: A, m0: Map<usize, usize>, m: Map<usize, usize>, root: usize) -> bool {
    forall|k: usize| #[trigger] m.contains_key(k) ==> m0.contains_key(k) || reachable(a, pf_all(), root, k)
}

pub closed spec fn keys_grow(m0: Map<usize, usize>, m: Map<usize, usize>) -> bool {
    forall|k: usize| #[trigger] m0.contains_key(k) ==> m.contains_key(k)
}

/// keys only grow, so there are at least as many
pub proof fn lemma_keys_grow_len(m0: Map<usize, usize>, m: Map<usize, usize>)
    requires keys_grow(m0, m),
    ensures m0.dom().len() <= m.dom().len(),
{
    assert(m0.dom().subset_of(m.dom())) by {
        assert forall|k: usize| m0.dom().contains(k) implies m.dom().contains(k) by { assert(m0.contains_key(k)); }
    }
    vstd::set_lib::lemma_len_subset(m0.dom(), m.dom());
}

/// the recursive call for the kid `to` of `root` added keys reachable from `to`: they are reachable from `root`
pub proof fn lemma_keys_from_kid(a: A, m0: Map<usize, usize>, mb: Map<usize, usize>, m: Map<usize, usize>, root: usize, to: usize, j: int)
    requires
        keys_from(a, m0, mb, root), keys_from(a, mb, m, to),
        root < a.edges.len(), 0 <= j < a.edges[root as int].len(), a.edges[root as int][j].1 == to,
    ensures keys_from(a, m0, m, root),
{
    assert(acc(a, pf_all(), root, to)) by { assert(a.edges[root as int][j].1 == to); }
    assert forall|k: usize| #[trigger] m.contains_key(k) implies m0.contains_key(k) || reachable(a, pf_all(), root, k) by {
        if !mb.contains_key(k) { lemma_reach_prepend(a, pf_all(), root, to, k); }
    }
}

/// merge(): all keys are reachable from `right`; a present vertex that is not reachable is therefore not a key, and
/// then there are fewer keys than present vertices
pub proof fn lemma_merge_complete(a: A, m: Map<usize, usize>, right: usize)
    requires
        keys_present(a, m), keys_from(a, Map::<usize, usize>::empty(), m, right), a.tag.len() <= usize::MAX,
        m.dom().len() == present_count(a),
    ensures
        forall|v: int| #[trigger] present(a, v) ==> m.contains_key(v as usize) && reachable(a, pf_all(), right, v as usize),
{
    lemma_complete(a, m);
}
