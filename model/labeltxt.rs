// C17: the text of a label (what Debug/Display write) and the property's domains, as spec functions; lemmas.
// `label_text` is what the property says printing yields: a single character, the alpha sign followed by the decimal index,
// the characters of a name without the padding.

/// the characters other than the padding, in order (opaque: vstd's broadcast lemmas about Seq::filter are kept away from the
/// code proofs; revealed in the lemmas below and where Debug::fmt filters)
#[verifier::opaque]
pub open spec fn strip(a: Seq<char>) -> Seq<char> { a.filter(|c: char| c != ' ') }
pub open spec fn no_space(t: Seq<char>) -> bool { forall|i: int| 0 <= i < t.len() ==> t[i] != ' ' }
pub open spec fn spaces(n: nat) -> Seq<char> { Seq::new(n, |i: int| ' ') }
/// a name of at most eight characters, padded with spaces to eight
pub open spec fn pad8(t: Seq<char>) -> Seq<char> { t + spaces((8 - t.len()) as nat) }

pub open spec fn label_text(l: Label) -> Seq<char> {
    match l {
        Label::Greek(c) => seq![c],
        Label::Alpha(i) => seq!['α'] + dec_text(i),
        Label::Str(a) => strip(a@),
    }
}
/// "a canonical decimal index"
pub open spec fn canonical_dec(t: Seq<char>) -> bool { exists|n: usize| t == dec_text(n) }
/// "label text of 1 to 8 non-space characters (the alpha sign followed by a canonical decimal index, or any text not
/// starting with the alpha sign)"
pub open spec fn label_text_ok(t: Seq<char>) -> bool {
    1 <= t.len() <= 8 && no_space(t) && (t[0] == 'α' ==> canonical_dec(t.skip(1)))
}
/// "2 to 8 non-space characters": the array is such a name padded with spaces
pub open spec fn canonical_str(a: Seq<char>) -> bool {
    exists|t: Seq<char>| 2 <= t.len() <= 8 && no_space(t) && a == pad8(t)
}

// ---- lemmas about Seq::filter (proved)
pub open spec fn derefs(s: Seq<&char>) -> Seq<char> { Seq::new(s.len(), |i: int| *s[i]) }

pub proof fn lemma_filter_ext<A>(s: Seq<A>, p: spec_fn(A) -> bool, q: spec_fn(A) -> bool)
    requires forall|i: int| 0 <= i < s.len() ==> p(s[i]) == q(s[i]),
    ensures s.filter(p) == s.filter(q),
    decreases s.len(),
{
    reveal(Seq::filter);
    if s.len() > 0 {
        lemma_filter_ext(s.drop_last(), p, q);
    }
}
pub proof fn lemma_filter_derefs(s: Seq<&char>, q: spec_fn(char) -> bool)
    ensures derefs(s.filter(|x: &char| q(*x))) == derefs(s).filter(q),
    decreases s.len(),
{
    reveal(Seq::filter);
    if s.len() > 0 {
        lemma_filter_derefs(s.drop_last(), q);
        assert(derefs(s).drop_last() =~= derefs(s.drop_last()));
        let f = s.drop_last().filter(|x: &char| q(*x));
        if q(*s.last()) {
            assert(derefs(f.push(s.last())) =~= derefs(f).push(*s.last()));
        }
    } else {
        assert(derefs(s.filter(|x: &char| q(*x))) =~= derefs(s).filter(q));
    }
}
pub proof fn lemma_filter_all<A>(s: Seq<A>, p: spec_fn(A) -> bool)
    requires forall|i: int| 0 <= i < s.len() ==> p(s[i]),
    ensures s.filter(p) == s,
    decreases s.len(),
{
    reveal(Seq::filter);
    if s.len() > 0 { lemma_filter_all(s.drop_last(), p); assert(s.drop_last().push(s.last()) =~= s); }
}
pub proof fn lemma_filter_none<A>(s: Seq<A>, p: spec_fn(A) -> bool)
    requires forall|i: int| 0 <= i < s.len() ==> !p(s[i]),
    ensures s.filter(p) == Seq::<A>::empty(),
    decreases s.len(),
{
    reveal(Seq::filter);
    if s.len() > 0 { lemma_filter_none(s.drop_last(), p); }
}
/// a filter over references that keeps exactly the non-space characters yields strip() of the characters
pub proof fn lemma_strip_refs(s: Seq<&char>, q: spec_fn(&char) -> bool)
    requires forall|i: int| 0 <= i < s.len() ==> q(s[i]) == (*s[i] != ' '),
    ensures derefs(s.filter(q)) == strip(derefs(s)),
    decreases s.len(),
{
    reveal(Seq::filter);
    reveal(strip);
    if s.len() > 0 {
        lemma_strip_refs(s.drop_last(), q);
        assert(derefs(s).drop_last() =~= derefs(s.drop_last()));
        let f = s.drop_last().filter(q);
        if q(s.last()) {
            assert(derefs(f.push(s.last())) =~= derefs(f).push(*s.last()));
        }
    } else {
        assert(derefs(s.filter(q)) =~= strip(derefs(s)));
    }
}
/// printing drops the padding and nothing else
//# L17-strip-of-a-padded-name-is-the-name: C17
pub proof fn lemma_strip_pad8(t: Seq<char>)
    requires no_space(t), t.len() <= 8,
    ensures strip(pad8(t)) == t,
{
    reveal(strip);
    let p = |c: char| c != ' ';
    let sp = spaces((8 - t.len()) as nat);
    Seq::filter_distributes_over_add(t, sp, p);
    lemma_filter_all(t, p);
    lemma_filter_none(sp, p);
    assert(t + Seq::<char>::empty() =~= t);
}
//#end

/// "distinct texts give distinct labels": whatever parsing returns for two texts, if printing returns the texts then equal
/// labels mean equal texts
//# L17-distinct-texts-give-distinct-labels: C17
pub proof fn lemma_distinct_texts(t1: Seq<char>, t2: Seq<char>, l1: Label, l2: Label)
    requires label_text(l1) == t1, label_text(l2) == t2, t1 != t2,
    ensures l1 != l2,
{
}
//#end

/// what "canonical name" gives: printing it yields the 2 to 8 characters it was padded from
pub open spec fn canon_facts() -> bool {
    forall|a0: [char; 8]| #[trigger] canonical_str(a0@) ==>
        2 <= strip(a0@).len() <= 8 && a0@ == pad8(strip(a0@)) && no_space(strip(a0@)) && strip(a0@)[0] == a0@[0]
}
pub proof fn lemma_canon_facts()
    ensures canon_facts(),
{
    assert forall|a0: [char; 8]| #[trigger] canonical_str(a0@) implies
        2 <= strip(a0@).len() <= 8 && a0@ == pad8(strip(a0@)) && no_space(strip(a0@)) && strip(a0@)[0] == a0@[0] by {
        let t = choose|t: Seq<char>| 2 <= t.len() <= 8 && no_space(t) && a0@ == pad8(t);
        lemma_strip_pad8(t);
    }
}
/// a text splits into its first character and the rest
pub proof fn lemma_head_tail(t: Seq<char>)
    requires t.len() >= 1,
    ensures t == seq![t[0]] + t.skip(1), (seq![t[0]] + t.skip(1)).skip(1) == t.skip(1),
{
    assert(t =~= seq![t[0]] + t.skip(1));
}
pub proof fn lemma_cons_skip(c: char, d: Seq<char>)
    ensures (seq![c] + d).skip(1) == d, (seq![c] + d)[0] == c, (seq![c] + d).len() == d.len() + 1,
{
    assert((seq![c] + d).skip(1) =~= d);
}
/// the first k characters of a text followed by spaces, eight in all
pub open spec fn pad8_prefix(t: Seq<char>, k: int) -> Seq<char> { Seq::new(8, |i: int| if i < k { t[i] } else { ' ' }) }
/// one more character of a name written into the padded array
pub proof fn lemma_pad8_step(t: Seq<char>, k: int)
    requires 0 <= k < 8, k < t.len(),
    ensures pad8_prefix(t, k + 1) == pad8_prefix(t, k).update(k, t[k]),
{
    assert(pad8_prefix(t, k + 1) =~= pad8_prefix(t, k).update(k, t[k]));
}
pub proof fn lemma_pad8_all(t: Seq<char>)
    requires t.len() <= 8,
    ensures pad8_prefix(t, t.len() as int) == pad8(t),
{
    assert(pad8_prefix(t, t.len() as int) =~= pad8(t));
}
