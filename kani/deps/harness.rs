// AUDIT of the trusted container contracts (shim/*.rs) against the REAL dependency crates
// emap 0.0.13, micromap 0.0.19, microstack 0.0.7 (same versions as /repo/Cargo.lock).
// BOUNDED: small element types, emap capacity <= 3, micromap / microstack N = 3. Never counted as proof;
// the purpose is to keep the shim honest (a contract that contradicts the crate fails here).
// Debug assertions are on (Kani's default profile), which is also C07's premise.

pub mod emap_audit {
    use emap::Map;

    fn any_map() -> (Map<u8>, usize, u8) {
        let cap: usize = kani::any();
        kani::assume(cap >= 1 && cap <= 3);
        let x: u8 = kani::any();
        (Map::with_capacity_some(cap, x), cap, x)
    }

    #[kani::proof] #[kani::unwind(5)]
    pub fn with_capacity_some_fills_every_slot() {
        let (m, cap, x) = any_map();
        assert!(m.capacity() == cap);
        let k: usize = kani::any();
        kani::assume(k < cap);
        assert!(m.get(k) == Some(&x));
    }

    #[kani::proof] #[kani::unwind(5)]
    pub fn insert_and_get_mut_touch_one_slot() {
        let (mut m, cap, x) = any_map();
        let k: usize = kani::any(); let j: usize = kani::any(); let y: u8 = kani::any(); let z: u8 = kani::any();
        kani::assume(k < cap && j < cap && j != k);
        m.insert(k, y);
        assert!(m.get(k) == Some(&y));
        assert!(m.get(j) == Some(&x));
        *m.get_mut(j).unwrap() = z;
        assert!(m.get(j) == Some(&z));
        assert!(m.get(k) == Some(&y));
        assert!(m.capacity() == cap);
    }

    #[kani::proof] #[kani::unwind(5)] #[kani::should_panic]
    pub fn get_out_of_range_panics_oob() {
        let (m, cap, _x) = any_map();
        let k: usize = kani::any();
        kani::assume(k >= cap);
        let _ = m.get(k);
        kani::cover!(true, "returned-normally");
    }

    #[kani::proof] #[kani::unwind(5)] #[kani::should_panic]
    pub fn get_mut_out_of_range_panics_oob() {
        let (mut m, cap, _x) = any_map();
        let k: usize = kani::any();
        kani::assume(k >= cap);
        let _ = m.get_mut(k);
        kani::cover!(true, "returned-normally");
    }

    #[kani::proof] #[kani::unwind(5)] #[kani::should_panic]
    pub fn insert_out_of_range_panics_oob() {
        let (mut m, cap, _x) = any_map();
        let k: usize = kani::any();
        kani::assume(k >= cap);
        m.insert(k, 1);
        kani::cover!(true, "returned-normally");
    }

    #[kani::proof] #[kani::unwind(6)]
    pub fn iter_mut_yields_slots_in_order_and_break_leaves_the_rest() {
        let (mut m, cap, x) = any_map();
        let stop: usize = kani::any();
        kani::assume(stop < cap);
        let y: u8 = kani::any();
        let mut expect = 0;
        for b in m.iter_mut() {
            assert!(b.0 == expect);
            assert!(*b.1 == x);
            expect += 1;
            if b.0 == stop { *b.1 = y; break; }
        }
        let k: usize = kani::any();
        kani::assume(k < cap);
        assert!(m.get(k) == Some(if k == stop { &y } else { &x }));
    }

    #[kani::proof] #[kani::unwind(6)]
    pub fn iter_find_is_first_match() {
        let (mut m, cap, x) = any_map();
        let k: usize = kani::any(); let y: u8 = kani::any();
        kani::assume(k < cap && y != x);
        m.insert(k, y);
        let r = m.iter().find(|(_i, v)| **v == y).map(|(i, _)| i);
        assert!(r == Some(k));
        let none = m.iter().find(|(i, v)| **v == y && *i > k).map(|(i, _)| i);
        assert!(none.is_none());
    }

    #[kani::proof] #[kani::unwind(6)]
    pub fn clone_is_deep() {
        let (m, cap, x) = any_map();
        let mut c = m.clone();
        let k: usize = kani::any(); let y: u8 = kani::any();
        kani::assume(k < cap);
        assert!(c.capacity() == cap && c.get(k) == Some(&x));
        c.insert(k, y);
        assert!(m.get(k) == Some(&x));
        assert!(c.get(k) == Some(&y));
    }
}

pub mod microstack_audit {
    use microstack::Stack;

    #[kani::proof] #[kani::unwind(6)]
    pub fn new_push_len_order() {
        let mut s: Stack<usize, 3> = Stack::new();
        assert!(s.is_empty() && s.len() == 0);
        let a: usize = kani::any(); let b: usize = kani::any();
        s.push(a);
        assert!(!s.is_empty() && s.len() == 1);
        s.push(b);
        assert!(s.len() == 2);
        let mut it = s.into_iter();
        assert!(it.next() == Some(a));
        assert!(it.next() == Some(b));
        assert!(it.next().is_none());
        s.clear();
        assert!(s.is_empty() && s.into_iter().next().is_none());
    }

    #[kani::proof] #[kani::unwind(6)] #[kani::should_panic]
    pub fn push_on_full_panics_oob() {
        let mut s: Stack<usize, 3> = Stack::new();
        s.push(1); s.push(2); s.push(3);
        s.push(4);
        kani::cover!(true, "returned-normally");
    }

    #[kani::proof] #[kani::unwind(6)]
    pub fn from_vec_and_clone() {
        let a: usize = kani::any();
        let s: Stack<usize, 3> = Stack::from_vec([a].to_vec());
        assert!(s.len() == 1 && s.into_iter().next() == Some(a));
        let mut c = s.clone();
        c.push(7);
        assert!(s.len() == 1 && c.len() == 2);
        let mut it = c.into_iter();
        assert!(it.next() == Some(a) && it.next() == Some(7));
    }

    pub fn stub_format(_args: core::fmt::Arguments<'_>) -> String { String::new() }

    #[kani::proof] #[kani::unwind(6)] #[kani::stub(alloc::fmt::format, stub_format)]
    pub fn try_push_never_panics() {
        let mut s: Stack<usize, 3> = Stack::new();
        let n: usize = kani::any();
        kani::assume(n <= 3);
        let mut i = 0;
        while i < n { s.push(i); i += 1; }
        let r = s.try_push(9);
        let ok = r.is_ok();
        core::mem::forget(r);
        assert!(ok == (n < 3));
        assert!(s.len() == if n < 3 { n + 1 } else { 3 });
    }
}

pub mod micromap_audit {
    use micromap::Map;

    #[kani::proof] #[kani::unwind(6)]
    pub fn insert_replaces_in_place_or_appends() {
        let mut m: Map<u8, u8, 3> = Map::new();
        assert!(m.len() == 0);
        let k1: u8 = kani::any(); let k2: u8 = kani::any(); let v1: u8 = kani::any(); let v2: u8 = kani::any(); let v3: u8 = kani::any();
        kani::assume(k1 != k2);
        m.insert(k1, v1);
        m.insert(k2, v2);
        assert!(m.len() == 2);
        // overwrite the first key: position and key kept, value replaced, nothing appended
        m.insert(k1, v3);
        assert!(m.len() == 2);
        let mut it = m.iter();
        assert!(it.next() == Some((&k1, &v3)));
        assert!(it.next() == Some((&k2, &v2)));
        assert!(it.next().is_none());
        let mut it2 = (&m).into_iter();
        assert!(it2.next() == Some((&k1, &v3)));
        assert!(m.get(&k1) == Some(&v3) && m.contains_key(&k2));
    }

    #[kani::proof] #[kani::unwind(6)] #[kani::should_panic]
    pub fn insert_new_key_on_full_panics_oob() {
        let mut m: Map<u8, u8, 3> = Map::new();
        m.insert(1, 1); m.insert(2, 2); m.insert(3, 3);
        let k: u8 = kani::any();
        kani::assume(k != 1 && k != 2 && k != 3);
        m.insert(k, 0);
        kani::cover!(true, "returned-normally");
    }

    #[kani::proof] #[kani::unwind(6)]
    pub fn insert_existing_key_on_full_is_fine() {
        let mut m: Map<u8, u8, 3> = Map::new();
        m.insert(1, 1); m.insert(2, 2); m.insert(3, 3);
        let k: u8 = kani::any(); let v: u8 = kani::any();
        kani::assume(k == 1 || k == 2 || k == 3);
        m.insert(k, v);
        assert!(m.len() == 3 && m.get(&k) == Some(&v));
    }

    #[kani::proof] #[kani::unwind(6)]
    pub fn clear_clone_remove() {
        let mut m: Map<u8, u8, 3> = Map::new();
        m.insert(1, 10); m.insert(2, 20); m.insert(3, 30);
        let c = m.clone();
        // swap-remove: the last pair moves into the hole
        assert!(m.remove(&1) == Some(10));
        let mut it = m.iter();
        assert!(it.next() == Some((&3, &30)));
        assert!(it.next() == Some((&2, &20)));
        assert!(it.next().is_none());
        assert!(c.len() == 3 && c.get(&1) == Some(&10));
        m.clear();
        assert!(m.len() == 0 && m.iter().next().is_none());
    }
}
