// Kani harnesses for src/hex.rs (the real file, included with #[path] by the generated lib.rs).
//
// Inline variant `Bytes([u8;8], n<=8)`: every harness below is loop-free over the FULL domain
// (all 2^64 arrays, every n in 0..=8, every usize index) => a complete proof, not a bounded one.
// `v_*` harnesses use the heap variant with a symbolic length <= VMAX and are labelled bounded.
//
// Oracles: the panic condition of the corresponding std slice operation, written out as a predicate
// `ok_*`; each predicate is itself validated against the real `[u8]` indexing in both directions
// (`slice_*_ok` must not panic, `slice_*_oob` must always panic), so it is not taken on trust.
//
// "must panic": #[kani::should_panic] only demands one panicking execution, so every `*_oob`
// harness additionally has a `kani::cover!` after the call that must be UNREACHABLE.

use super::*;

const VMAX: usize = 12;

/// error paths build their message with format!; its internals are irrelevant to the property and dominate
/// CBMC cost, so they are replaced by a constant string (Kani prints `- Stub: ..fmt::format` when applied)
pub fn stub_format(_args: core::fmt::Arguments<'_>) -> String { String::new() }
/// anyhow captures a backtrace when it builds an Error (env lookups, unwinder): irrelevant here
pub fn stub_backtrace() -> std::backtrace::Backtrace { std::backtrace::Backtrace::disabled() }


pub fn any_inline() -> Hex {
    let a: [u8; 8] = kani::any();
    let n: usize = kani::any();
    kani::assume(n <= 8);
    Hex::Bytes(a, n)
}

pub fn any_heap() -> Hex {
    let v: Vec<u8> = kani::vec::any_vec::<u8, VMAX>();
    Hex::Vector(v)
}

/// loop-free slice equality: lengths equal and, at a universally chosen position, the bytes agree
fn same(r: &[u8], s: &[u8]) {
    assert!(r.len() == s.len());
    let k: usize = kani::any();
    if k < r.len() { assert!(r[k] == s[k]); }
}

fn ok_range(a: usize, b: usize, n: usize) -> bool { a <= b && b <= n }
fn ok_from(a: usize, n: usize) -> bool { a <= n }
fn ok_incl(a: usize, b: usize, n: usize) -> bool { b != usize::MAX && a <= b + 1 && b + 1 <= n }
fn ok_to(b: usize, n: usize) -> bool { b <= n }
fn ok_toincl(b: usize, n: usize) -> bool { b != usize::MAX && b + 1 <= n }

macro_rules! index_family {
    ($mk:ident, $p:ident) => {
        pub mod $p {
            use super::*;
            // ---- usize ----
            #[kani::proof]
            pub fn index_usize_ok() {
                let h = $mk(); let i: usize = kani::any();
                kani::assume(i < h.bytes().len());
                assert!(h[i] == h.bytes()[i]);
            }
            #[kani::proof] #[kani::should_panic]
            pub fn index_usize_oob() {
                let h = $mk(); let i: usize = kani::any();
                kani::assume(!(i < h.bytes().len()));
                let _x = h[i];
                kani::cover!(true, "returned-normally");
            }
            // ---- a..b ----
            #[kani::proof]
            pub fn index_range_ok() {
                let h = $mk(); let a: usize = kani::any(); let b: usize = kani::any();
                kani::assume(ok_range(a, b, h.bytes().len()));
                same(&h[a..b], &h.bytes()[a..b]);
            }
            #[kani::proof] #[kani::should_panic]
            pub fn index_range_oob() {
                let h = $mk(); let a: usize = kani::any(); let b: usize = kani::any();
                kani::assume(!ok_range(a, b, h.bytes().len()));
                let _x = &h[a..b];
                kani::cover!(true, "returned-normally");
            }
            // ---- a.. ----
            #[kani::proof]
            pub fn index_from_ok() {
                let h = $mk(); let a: usize = kani::any();
                kani::assume(ok_from(a, h.bytes().len()));
                same(&h[a..], &h.bytes()[a..]);
            }
            #[kani::proof] #[kani::should_panic]
            pub fn index_from_oob() {
                let h = $mk(); let a: usize = kani::any();
                kani::assume(!ok_from(a, h.bytes().len()));
                let _x = &h[a..];
                kani::cover!(true, "returned-normally");
            }
            // ---- .. ----
            #[kani::proof]
            pub fn index_full_ok() {
                let h = $mk();
                same(&h[..], &h.bytes()[..]);
            }
            // ---- a..=b ----
            #[kani::proof]
            pub fn index_incl_ok() {
                let h = $mk(); let a: usize = kani::any(); let b: usize = kani::any();
                kani::assume(ok_incl(a, b, h.bytes().len()));
                same(&h[a..=b], &h.bytes()[a..=b]);
            }
            #[kani::proof] #[kani::should_panic]
            pub fn index_incl_oob() {
                let h = $mk(); let a: usize = kani::any(); let b: usize = kani::any();
                kani::assume(!ok_incl(a, b, h.bytes().len()));
                let _x = &h[a..=b];
                kani::cover!(true, "returned-normally");
            }
            // ---- ..b ----
            #[kani::proof]
            pub fn index_to_ok() {
                let h = $mk(); let b: usize = kani::any();
                kani::assume(ok_to(b, h.bytes().len()));
                same(&h[..b], &h.bytes()[..b]);
            }
            #[kani::proof] #[kani::should_panic]
            pub fn index_to_oob() {
                let h = $mk(); let b: usize = kani::any();
                kani::assume(!ok_to(b, h.bytes().len()));
                let _x = &h[..b];
                kani::cover!(true, "returned-normally");
            }
            // ---- ..=b ----
            #[kani::proof]
            pub fn index_toincl_ok() {
                let h = $mk(); let b: usize = kani::any();
                kani::assume(ok_toincl(b, h.bytes().len()));
                same(&h[..=b], &h.bytes()[..=b]);
            }
            #[kani::proof] #[kani::should_panic]
            pub fn index_toincl_oob() {
                let h = $mk(); let b: usize = kani::any();
                kani::assume(!ok_toincl(b, h.bytes().len()));
                let _x = &h[..=b];
                kani::cover!(true, "returned-normally");
            }
            // ---- IndexMut<usize> ----
            #[kani::proof]
            pub fn index_mut_ok() {
                let mut h = $mk(); let i: usize = kani::any(); let x: u8 = kani::any();
                let n = h.bytes().len();
                kani::assume(i < n);
                let j: usize = kani::any();
                kani::assume(j < n && j != i);
                let other = h.bytes()[j];
                h[i] = x;
                assert!(h.bytes().len() == n);
                assert!(h.bytes()[i] == x);
                assert!(h.bytes()[j] == other);
            }
            #[kani::proof]
            pub fn index_mut_ok_single() {
                // the j != i assumption above is vacuous for n == 1
                let mut h = $mk(); let x: u8 = kani::any();
                kani::assume(h.bytes().len() == 1);
                h[0] = x;
                assert!(h.bytes().len() == 1 && h.bytes()[0] == x);
            }
            #[kani::proof] #[kani::should_panic]
            pub fn index_mut_oob() {
                let mut h = $mk(); let i: usize = kani::any();
                kani::assume(!(i < h.bytes().len()));
                h[i] = 1;
                kani::cover!(true, "returned-normally");
            }
        }
    };
}

index_family!(any_inline, inl);
index_family!(any_heap, v_heap);

// ---- the oracle predicates against the real byte-slice operations (both directions) ----
pub mod oracle {
    use super::*;
    pub fn any_slice_len() -> ([u8; 8], usize) {
        let a: [u8; 8] = kani::any(); let n: usize = kani::any();
        kani::assume(n <= 8);
        (a, n)
    }
    #[kani::proof] pub fn slice_range_ok() { let (a, n) = any_slice_len(); let s = &a[..n];
        let x: usize = kani::any(); let y: usize = kani::any(); kani::assume(ok_range(x, y, n)); let _r = &s[x..y]; }
    #[kani::proof] #[kani::should_panic] pub fn slice_range_oob() { let (a, n) = any_slice_len(); let s = &a[..n];
        let x: usize = kani::any(); let y: usize = kani::any(); kani::assume(!ok_range(x, y, n)); let _r = &s[x..y];
        kani::cover!(true, "returned-normally"); }
    #[kani::proof] pub fn slice_from_ok() { let (a, n) = any_slice_len(); let s = &a[..n];
        let x: usize = kani::any(); kani::assume(ok_from(x, n)); let _r = &s[x..]; }
    #[kani::proof] #[kani::should_panic] pub fn slice_from_oob() { let (a, n) = any_slice_len(); let s = &a[..n];
        let x: usize = kani::any(); kani::assume(!ok_from(x, n)); let _r = &s[x..];
        kani::cover!(true, "returned-normally"); }
    #[kani::proof] pub fn slice_incl_ok() { let (a, n) = any_slice_len(); let s = &a[..n];
        let x: usize = kani::any(); let y: usize = kani::any(); kani::assume(ok_incl(x, y, n)); let _r = &s[x..=y]; }
    #[kani::proof] #[kani::should_panic] pub fn slice_incl_oob() { let (a, n) = any_slice_len(); let s = &a[..n];
        let x: usize = kani::any(); let y: usize = kani::any(); kani::assume(!ok_incl(x, y, n)); let _r = &s[x..=y];
        kani::cover!(true, "returned-normally"); }
    #[kani::proof] pub fn slice_to_ok() { let (a, n) = any_slice_len(); let s = &a[..n];
        let y: usize = kani::any(); kani::assume(ok_to(y, n)); let _r = &s[..y]; }
    #[kani::proof] #[kani::should_panic] pub fn slice_to_oob() { let (a, n) = any_slice_len(); let s = &a[..n];
        let y: usize = kani::any(); kani::assume(!ok_to(y, n)); let _r = &s[..y];
        kani::cover!(true, "returned-normally"); }
    #[kani::proof] pub fn slice_toincl_ok() { let (a, n) = any_slice_len(); let s = &a[..n];
        let y: usize = kani::any(); kani::assume(ok_toincl(y, n)); let _r = &s[..=y]; }
    #[kani::proof] #[kani::should_panic] pub fn slice_toincl_oob() { let (a, n) = any_slice_len(); let s = &a[..n];
        let y: usize = kani::any(); kani::assume(!ok_toincl(y, n)); let _r = &s[..=y];
        kani::cover!(true, "returned-normally"); }
}

// ---- equality depends on the byte string only ----
pub mod eqv {
    use super::*;
    fn same_bytes(a: &[u8; 8], na: usize, b: &[u8; 8], nb: usize) -> bool {
        if na != nb { return false; }
        let mut i = 0;
        while i < 8 { if i < na && a[i] != b[i] { return false; } i += 1; }
        true
    }
    #[kani::proof] #[kani::unwind(10)]
    pub fn eq_inline_inline_padding() {
        let a: [u8; 8] = kani::any(); let na: usize = kani::any(); kani::assume(na <= 8);
        let b: [u8; 8] = kani::any(); let nb: usize = kani::any(); kani::assume(nb <= 8);
        let h1 = Hex::Bytes(a, na); let h2 = Hex::Bytes(b, nb);
        assert!((h1 == h2) == same_bytes(&a, na, &b, nb));
    }
    #[kani::proof] #[kani::unwind(10)]
    pub fn eq_inline_heap_same_bytes() {
        let h1 = any_inline();
        let hv = Hex::Vector(h1.bytes().to_vec());
        assert!(h1 == hv);
        assert!(hv == h1);
        assert!(hv.len() == h1.len());
    }
    #[kani::proof] #[kani::unwind(14)]
    pub fn v_eq_inline_heap_any() {
        let a: [u8; 8] = kani::any(); let na: usize = kani::any(); kani::assume(na <= 8);
        let h1 = Hex::Bytes(a, na);
        let hv = any_heap();
        let n2 = hv.bytes().len();
        let mut same = na == n2;
        let mut i = 0;
        while i < 8 { if same && i < na && a[i] != hv.bytes()[i] { same = false; } i += 1; }
        assert!((h1 == hv) == same);
    }
}

// ---- i64 / f64 conversions ----
pub mod conv {
    use super::*;
    #[kani::proof]
    pub fn i64_roundtrip() {
        let i: i64 = kani::any();
        let h = Hex::from(i);
        assert!(h.len() == 8);
        assert!(h.bytes() == i.to_be_bytes());
        assert!(h.to_i64().unwrap() == i);
    }
    #[kani::proof]
    pub fn f64_roundtrip_bits() {
        let bits: u64 = kani::any();
        let f = f64::from_bits(bits);
        let h = Hex::from(f);
        assert!(h.len() == 8);
        assert!(h.to_f64().unwrap().to_bits() == bits);
    }
    #[kani::proof]
    pub fn i64_of_bytes_is_be() {
        // to_i64 of any 8-byte inline Hex (arbitrary bytes) is the big-endian value, and From inverts it
        let a: [u8; 8] = kani::any();
        let h = Hex::Bytes(a, 8);
        let i = h.to_i64().unwrap();
        assert!(i == i64::from_be_bytes(a));
        assert!(Hex::from(i) == h);
    }
    #[kani::proof]
    pub fn f64_of_bytes_is_be() {
        let a: [u8; 8] = kani::any();
        let h = Hex::Bytes(a, 8);
        let f = h.to_f64().unwrap();
        assert!(f.to_bits() == u64::from_be_bytes(a));
    }
    #[kani::proof] #[kani::stub(alloc::fmt::format, super::stub_format)]
    #[kani::stub(std::backtrace::Backtrace::capture, super::stub_backtrace)]
    pub fn i64_wrong_len_is_err() {
        let h = any_inline();
        kani::assume(h.len() != 8);
        let r = h.to_i64();
        let e = r.is_err();
        core::mem::forget(r); // do not run anyhow::Error's drop glue (backtrace frames) under CBMC
        assert!(e);
    }
    #[kani::proof] #[kani::stub(alloc::fmt::format, super::stub_format)]
    #[kani::stub(std::backtrace::Backtrace::capture, super::stub_backtrace)]
    pub fn f64_wrong_len_is_err() {
        let h = any_inline();
        kani::assume(h.len() != 8);
        let r = h.to_f64();
        let e = r.is_err();
        core::mem::forget(r);
        assert!(e);
    }
    // the heap form of exactly eight bytes (loop-free over all 2^64 byte strings of that shape: complete)
    #[kani::proof] #[kani::stub(alloc::fmt::format, super::stub_format)]
    #[kani::stub(std::backtrace::Backtrace::capture, super::stub_backtrace)]
    pub fn i64_heap8_is_be() {
        let a: [u8; 8] = kani::any();
        let h = Hex::Vector(a.to_vec());
        let r = h.to_i64();
        let good = match &r { Ok(i) => *i == i64::from_be_bytes(a), Err(_) => false };
        core::mem::forget(r);
        assert!(good);
    }
    #[kani::proof] #[kani::stub(alloc::fmt::format, super::stub_format)]
    #[kani::stub(std::backtrace::Backtrace::capture, super::stub_backtrace)]
    pub fn f64_heap8_is_be() {
        let a: [u8; 8] = kani::any();
        let h = Hex::Vector(a.to_vec());
        let r = h.to_f64();
        let good = match &r { Ok(f) => f.to_bits() == u64::from_be_bytes(a), Err(_) => false };
        core::mem::forget(r);
        assert!(good);
    }
    // nine bytes (the shortest string only the heap form can hold) are refused (complete for that shape)
    #[kani::proof] #[kani::stub(alloc::fmt::format, super::stub_format)]
    #[kani::stub(std::backtrace::Backtrace::capture, super::stub_backtrace)]
    pub fn i64_f64_heap9_is_err() {
        let a: [u8; 9] = kani::any();
        let h = Hex::Vector(a.to_vec());
        let r = h.to_i64(); let e = r.is_err(); core::mem::forget(r);
        assert!(e);
        let r2 = h.to_f64(); let e2 = r2.is_err(); core::mem::forget(r2);
        assert!(e2);
    }
    #[kani::proof] #[kani::stub(alloc::fmt::format, super::stub_format)]
    #[kani::stub(std::backtrace::Backtrace::capture, super::stub_backtrace)]
    pub fn v_f64_heap() {
        let h = any_heap();
        let r = h.to_f64();
        let ok = r.is_ok();
        core::mem::forget(r);
        assert!(ok == (h.bytes().len() == 8));
    }
    #[kani::proof] #[kani::stub(alloc::fmt::format, super::stub_format)]
    #[kani::stub(std::backtrace::Backtrace::capture, super::stub_backtrace)]
    pub fn v_i64_heap() {
        let h = any_heap();
        let r = h.to_i64();
        let ok = r.is_ok();
        core::mem::forget(r);
        assert!(ok == (h.bytes().len() == 8));
    }
}

// ---- concat (C16): r.bytes() == a.bytes() ++ b.bytes(), one harness per representation arm ----
pub mod cat {
    use super::*;
    /// loop-free: length adds up and, at a universally chosen position, the byte is the right one
    fn is_concat(r: &[u8], a: &[u8], b: &[u8]) -> bool {
        if r.len() != a.len() + b.len() { return false; }
        let i: usize = kani::any();
        if i < r.len() {
            let want = if i < a.len() { a[i] } else { b[i - a.len()] };
            if r[i] != want { return false; }
        }
        true
    }
    #[kani::proof]
    pub fn concat_inline_fits() {
        let a = any_inline(); let b = any_inline();
        kani::assume(a.len() + b.len() <= 8);
        let r = a.concat(&b);
        assert!(is_concat(r.bytes(), a.bytes(), b.bytes()));
    }
    #[kani::proof]
    pub fn concat_inline_8_spill() {
        let a = any_inline(); let b = any_inline();
        kani::assume(a.len() == 8 && b.len() >= 1);
        let r = a.concat(&b);
        assert!(is_concat(r.bytes(), a.bytes(), b.bytes()));
    }
    #[kani::proof]
    pub fn concat_inline_lt8_spill() {
        // KNOWN FINDING C16-1 on the pinned tree: fails, counterexample is used for the replay file
        let a = any_inline(); let b = any_inline();
        kani::assume(a.len() < 8 && a.len() + b.len() > 8);
        let r = a.concat(&b);
        assert!(is_concat(r.bytes(), a.bytes(), b.bytes()));
    }
    #[kani::proof]
    pub fn kf_concat_inline_lt8_spill_copies_padding() {
        // characterisation of C16-1: the result is ALL EIGHT array bytes followed by b
        let arr: [u8; 8] = kani::any(); let n: usize = kani::any(); kani::assume(n < 8);
        let a = Hex::Bytes(arr, n); let b = any_inline();
        kani::assume(n + b.len() > 8);
        let r = a.concat(&b);
        assert!(is_concat(r.bytes(), &arr, b.bytes()));
    }
    #[kani::proof]
    pub fn v_concat_heap_receiver() {
        let a = any_heap(); let b = any_inline();
        let r = a.concat(&b);
        assert!(is_concat(r.bytes(), a.bytes(), b.bytes()));
    }
    #[kani::proof]
    pub fn v_concat_inline_heap_arg() {
        let a = any_inline(); let b = any_heap();
        kani::assume(a.len() == 8 || a.len() + b.len() <= 8);
        let r = a.concat(&b);
        assert!(is_concat(r.bytes(), a.bytes(), b.bytes()));
    }
}


// ---- inherent accessors against the abstract byte string (inline: complete; v_*: bounded) ----
// These duplicate what Verus proves in U_hex for all lengths; they exist to give a concrete
// counterexample (concrete playback) when one of those obligations fails.
pub mod meth {
    use super::*;
    #[kani::proof]
    pub fn from_slice_inline() {
        let a: [u8; 8] = kani::any(); let n: usize = kani::any(); kani::assume(n <= 8);
        let h = Hex::from_slice(&a[..n]);
        same(h.bytes(), &a[..n]);
        assert!(h.len() == n && h.is_empty() == (n == 0));
    }
    #[kani::proof]
    pub fn v_from_slice_long() {
        let a: [u8; VMAX] = kani::any(); let n: usize = kani::any(); kani::assume(n <= VMAX);
        let h = Hex::from_slice(&a[..n]);
        same(h.bytes(), &a[..n]);
        assert!(h.len() == n);
        let hv = Hex::from_vec(a[..n].to_vec());
        same(hv.bytes(), &a[..n]);
    }
    #[kani::proof]
    pub fn byte_at_tail_inline() {
        let h = any_inline(); let k: usize = kani::any();
        kani::assume(k < h.len());
        assert!(h.byte_at(k) == h.bytes()[k]);
        let t = h.tail(k);
        same(t.bytes(), &h.bytes()[k..]);
    }
    #[kani::proof]
    pub fn v_byte_at_tail_heap() {
        let h = any_heap(); let k: usize = kani::any();
        kani::assume(k < h.len());
        assert!(h.byte_at(k) == h.bytes()[k]);
        let t = h.tail(k);
        same(t.bytes(), &h.bytes()[k..]);
    }
    // tail(len) is the empty value (no panic); tail / byte_at beyond the end panic as the slice operation does
    #[kani::proof]
    pub fn tail_full_inline() {
        let h = any_inline();
        let t = h.tail(h.len());
        assert!(t.len() == 0 && t.bytes().len() == 0);
    }
    #[kani::proof] #[kani::should_panic]
    pub fn tail_inline_oob() {
        let h = any_inline(); let k: usize = kani::any();
        kani::assume(!ok_from(k, h.bytes().len()));
        let _t = h.tail(k);
        kani::cover!(true, "returned-normally");
    }
    #[kani::proof] #[kani::should_panic]
    pub fn byte_at_inline_oob() {
        let h = any_inline(); let k: usize = kani::any();
        kani::assume(!(k < h.bytes().len()));
        let _b = h.byte_at(k);
        kani::cover!(true, "returned-normally");
    }
    #[kani::proof] #[kani::should_panic]
    pub fn v_tail_heap_oob() {
        let h = any_heap(); let k: usize = kani::any();
        kani::assume(!ok_from(k, h.bytes().len()));
        let _t = h.tail(k);
        kani::cover!(true, "returned-normally");
    }
    #[kani::proof] #[kani::should_panic]
    pub fn v_byte_at_heap_oob() {
        let h = any_heap(); let k: usize = kani::any();
        kani::assume(!(k < h.bytes().len()));
        let _b = h.byte_at(k);
        kani::cover!(true, "returned-normally");
    }
    #[kani::proof]
    pub fn to_vec_len_inline() {
        let h = any_inline();
        let v = h.to_vec();
        same(&v, h.bytes());
        assert!(h.len() == h.bytes().len());
        if let Hex::Bytes(a, n) = &h { same(h.bytes(), &a[..*n]); }
    }
    #[kani::proof]
    pub fn empty_is_empty() {
        let h = Hex::empty();
        assert!(h.len() == 0 && h.is_empty() && h.bytes().len() == 0);
    }
}
