// Kani harnesses on the REAL Label / Persistence types (enum declarations extracted from src/lib.rs on every run,
// src/label.rs included by #[path]; any hand-written `impl ... for Label` found in lib.rs is carried along).
// They discharge what U_ops otherwise would have to assume: `==` on Label and on Persistence is structural equality
// (U_ops gives both types Verus' `Structural`). Complete: all chars, all usize, all [char; 8].
use super::*;

pub fn any_label() -> Label {
    let k: u8 = kani::any();
    if k == 0 { Label::Greek(kani::any()) } else if k == 1 { Label::Alpha(kani::any()) } else { Label::Str(kani::any()) }
}

pub fn structural(a: &Label, b: &Label) -> bool {
    match (a, b) {
        (Label::Greek(x), Label::Greek(y)) => *x as u32 == *y as u32,
        (Label::Alpha(x), Label::Alpha(y)) => *x == *y,
        (Label::Str(x), Label::Str(y)) => {
            let mut same = true;
            let mut i = 0;
            while i < 8 {
                if x[i] as u32 != y[i] as u32 { same = false; }
                i += 1;
            }
            same
        }
        _ => false,
    }
}

pub mod eqv {
    use super::*;
    #[kani::proof]
    #[kani::unwind(34)] // derived == on [char; 8] is a 32-byte memcmp
    pub fn label_eq_is_structural() {
        let a = any_label();
        let b = any_label();
        let s = structural(&a, &b);
        assert!((a == b) == s);
        assert!((a != b) == !s);
    }

    pub fn any_pers() -> Persistence {
        let k: u8 = kani::any();
        if k == 0 { Persistence::Empty } else if k == 1 { Persistence::Stored } else { Persistence::Taken }
    }
    pub fn pers_code(p: &Persistence) -> u8 {
        match p { Persistence::Empty => 0, Persistence::Stored => 1, Persistence::Taken => 2 }
    }
    #[kani::proof]
    pub fn persistence_eq_is_structural() {
        let a = any_pers();
        let b = any_pers();
        assert!((a == b) == (pers_code(&a) == pers_code(&b)));
        assert!((a != b) == (pers_code(&a) != pers_code(&b)));
    }
    #[kani::proof]
    #[kani::unwind(34)]
    pub fn label_copy_clone_keep_value() {
        let a = any_label();
        let b = a;          // Copy
        let c = a.clone();  // Clone
        assert!(structural(&a, &b) && structural(&a, &c));
    }
}
