// Native audit of the TRUSTED std / hex-crate contracts of shim/stdstr.rs and shim/hexcrate.rs (thorough tier; an audit,
// never counted as proof). Each function restates one axiom against the real functions; exhaustive where the domain allows
// (all u8, all char), sampled otherwise. Prints one line per axiom: "audit <name> ok <cases>" or "audit <name> FAILED <why>".
use std::str::FromStr;

fn samples() -> Vec<String> {
    let mut v: Vec<String> = ["", "a", "α", "α5", "αx", "ρ", "𝜑", "hello", "--", "-", "0-1", "00-2A", "a b", " x ", "αα", "12345678",
        "123456789", "+5", "007", "ν1", "x-y-z", "\u{7f}", "\u{80}", "\u{7ff}", "\u{800}", "\u{ffff}", "\u{10000}"]
        .iter().map(|s| s.to_string()).collect();
    for c in ['a', '-', 'α', ' ', '0'] { for n in [2usize, 7, 8, 9, 17] { v.push(std::iter::repeat(c).take(n).collect()); } }
    v
}

fn a_02x_decode() -> Result<usize, String> {
    let mut prefixes: Vec<String> = vec!["".into(), "G".into(), "A".into(), "zz".into(), "0".into(), "AB".into(), "abcd".into(), "00FF7f".into()];
    for b in 0..=255u8 { prefixes.push(format!("{b:02X}")); prefixes.push(format!("{b:02x}")); }
    let mut n = 0;
    for b in 0..=255u8 {
        let p = format!("{b:02X}");
        if p.chars().count() != 2 || p.contains('-') { return Err(format!("{b}: {p}")); }
        for t in &prefixes {
            let whole = format!("{t}{p}");
            let want = hex::decode(t).ok().map(|mut v| { v.push(b); v });
            let got = hex::decode(&whole).ok();
            if want != got { return Err(format!("prefix {t:?} byte {b}: {got:?} != {want:?}")); }
            n += 1;
        }
    }
    if hex::decode(String::new()).ok() != Some(vec![]) { return Err("decode(\"\")".into()); }
    Ok(n)
}
fn a_replace_is_without() -> Result<usize, String> {
    let mut n = 0;
    for s in samples() { for c in ['-', 'a', 'α', ' '] {
        let want: String = s.chars().filter(|x| *x != c).collect();
        if s.replace(c, "") != want { return Err(format!("{s:?} {c:?}")); }
        n += 1;
    } }
    Ok(n)
}
fn a_join_def() -> Result<usize, String> {
    fn join_def(parts: &[String], sep: &str) -> String {
        if parts.is_empty() { String::new() } else if parts.len() == 1 { parts[0].clone() }
        else { format!("{}{}{}", join_def(&parts[..parts.len() - 1], sep), sep, parts[parts.len() - 1]) }
    }
    let s = samples();
    let mut n = 0;
    for k in 0..6 { for off in 0..s.len() - 6 { for sep in ["-", "", ", ", "\n"] {
        let parts: Vec<String> = s[off..off + k].to_vec();
        if parts.join(sep) != join_def(&parts, sep) { return Err(format!("{parts:?} {sep:?}")); }
        n += 1;
    } } }
    Ok(n)
}
fn a_dec_text() -> Result<usize, String> {
    let mut xs: Vec<usize> = (0..70000).collect();
    for k in 0..usize::BITS { let p = 1usize << k; xs.push(p); xs.push(p - 1); xs.push(p.wrapping_add(1)); }
    xs.push(usize::MAX); xs.push(123456789);
    for n in &xs {
        let s = n.to_string();
        if s.is_empty() || !s.chars().all(|c| ('0'..='9').contains(&c)) { return Err(format!("{n}: {s}")); }
        if s.parse::<usize>().ok() != Some(*n) || usize::from_str(&s).ok() != Some(*n) { return Err(format!("{n} does not parse back")); }
        if format!("α{n}") != format!("α{}", s) || format!("{n}") != s { return Err(format!("format α{n}")); }
    }
    for bad in ["", "x", "5x", "-1", " 5", "5 ", "99999999999999999999999999"] {
        if bad.parse::<usize>().is_ok() { return Err(format!("{bad:?} parses")); }
    }
    Ok(xs.len())
}
fn a_char_text_and_len() -> Result<usize, String> {
    let mut n = 0;
    for u in 0..=0x10FFFFu32 { if let Some(c) = char::from_u32(u) {
        let s = format!("{c}");
        if s.chars().collect::<Vec<_>>() != vec![c] || c.to_string() != s { return Err(format!("char {u:x}")); }
        // str::len is the UTF-8 length; it is 1 exactly for the characters below 0x80
        if s.len() != c.len_utf8() || (s.len() == 1) != (u < 0x80) || s.chars().count() != 1 { return Err(format!("len {u:x}")); }
        n += 1;
    } }
    Ok(n)
}
fn a_str_fns() -> Result<usize, String> {
    let mut n = 0;
    for s in samples() {
        let cs: Vec<char> = s.chars().collect();
        for c in ['α', 'a', '-', ' '] {
            if s.starts_with(c) != (!cs.is_empty() && cs[0] == c) { return Err(format!("starts_with {s:?} {c:?}")); }
        }
        if s.chars().count() != cs.len() { return Err(format!("count {s:?}")); }
        let back: String = cs.clone().into_iter().collect();
        let back2: String = cs.iter().collect();
        if back != s || back2 != s { return Err(format!("from_iter {s:?}")); }
        let tail: String = s.chars().skip(1).collect::<Vec<_>>().into_iter().collect();
        if tail.chars().collect::<Vec<_>>() != cs.iter().skip(1).cloned().collect::<Vec<_>>() { return Err(format!("skip {s:?}")); }
        for (k, (i, c)) in cs.clone().into_iter().enumerate().enumerate() { if i != k || c != cs[k] { return Err(format!("enumerate {s:?}")); } }
        let kept: Vec<&char> = cs.iter().filter(|c| **c != ' ').collect();
        let mut want = vec![]; for c in &cs { if *c != ' ' { want.push(c); } }
        if kept != want { return Err(format!("filter {s:?}")); }
        if s.len() != cs.iter().map(|c| c.len_utf8()).sum::<usize>() { return Err(format!("len {s:?}")); }
        n += 1;
    }
    Ok(n)
}

fn main() {
    let all: Vec<(&str, fn() -> Result<usize, String>)> = vec![
        ("axiom_02x_decode+axiom_decode_empty (all bytes x 520 prefixes)", a_02x_decode),
        ("axiom_replace_char_by_nothing (sampled)", a_replace_is_without),
        ("axiom_joined_def (sampled)", a_join_def),
        ("axiom_dec_text+axiom_parse_usize+axiom_fmt_one_slot (0..70000, powers of two, MAX)", a_dec_text),
        ("axiom_char_text+str::len is the UTF-8 length (all chars)", a_char_text_and_len),
        ("starts_with/count/FromIterator/skip/enumerate/filter (sampled)", a_str_fns),
    ];
    let mut bad = 0;
    for (name, f) in all {
        match f() { Ok(n) => println!("audit {name} ok {n}"), Err(e) => { println!("audit {name} FAILED {e}"); bad += 1; } }
    }
    std::process::exit(if bad == 0 { 0 } else { 1 });
}
