use vstd::prelude::*;
verus! {

pub mod emap {
    use vstd::prelude::*;
    use core::marker::PhantomData;

    #[verifier::external_body]
    #[verifier::accept_recursive_types(V)]
    pub struct Map<V> { p: PhantomData<V> }

    #[verifier::external_body]
    #[verifier::accept_recursive_types(V)]
    pub struct IterMut<'a, V> { p: PhantomData<&'a mut V> }

    impl<V> Map<V> {
        pub uninterp spec fn view(&self) -> Seq<Option<V>>;
    }
    impl<'a, V> IterMut<'a, V> {
        pub uninterp spec fn src(&self) -> Seq<Option<V>>;
        pub uninterp spec fn pos(&self) -> nat;
        #[verifier::prophetic]
        pub uninterp spec fn fin(&self) -> Seq<Option<V>>;
    }

    impl<V: Clone> Map<V> {
        #[verifier::external_body]
        pub fn get_mut(&mut self, k: usize) -> (r: Option<&mut V>)
            requires k < old(self).view().len(),
            ensures
                match r {
                    Some(m) => old(self).view()[k as int] == Some(*m)
                        && final(self).view() == old(self).view().update(k as int, Some(*final(m))),
                    None => old(self).view()[k as int].is_none() && final(self).view() == old(self).view(),
                }
        { unimplemented!() }

        #[verifier::external_body]
        pub fn iter_mut(&mut self) -> (r: IterMut<'_, V>)
            requires forall|i: int| 0 <= i < old(self).view().len() ==> (#[trigger] old(self).view()[i]).is_some(),
            ensures
                r.src() == old(self).view(),
                r.pos() == 0,
                r.fin() == final(self).view(),
                r.fin().len() == r.src().len(),
        { unimplemented!() }
    }

    pub broadcast axiom fn axiom_itermut_resolved<'a, V: Clone + 'a>(it: IterMut<'a, V>)
        ensures
            #[trigger] has_resolved(it) ==> forall|i: int| it.pos() <= i < it.src().len() ==> #[trigger] it.fin()[i] == it.src()[i];

    impl<'a, V: Clone + 'a> Iterator for IterMut<'a, V> {
        type Item = (usize, &'a mut V);
        #[verifier::external_body]
        fn next(&mut self) -> (ret: Option<Self::Item>)
            ensures
                final(self).src() == old(self).src(),
                final(self).fin() == old(self).fin(),
                match ret {
                    Some(km) => old(self).pos() < old(self).src().len()
                        && km.0 == old(self).pos()
                        && final(self).pos() == old(self).pos() + 1
                        && Some(*km.1) == old(self).src()[km.0 as int]
                        && Some(*final(km.1)) == old(self).fin()[km.0 as int],
                    None => old(self).pos() >= old(self).src().len() && final(self).pos() == old(self).pos(),
                }
        { unimplemented!() }
    }
    impl<'a, V: Clone + 'a> vstd::std_specs::iter::IteratorSpecImpl for IterMut<'a, V> {
        uninterp spec fn obeys_prophetic_iter_laws(&self) -> bool;
        #[verifier::prophetic]
        uninterp spec fn remaining(&self) -> Seq<(usize, &'a mut V)>;
        #[verifier::prophetic]
        uninterp spec fn will_return_none(&self) -> bool;
        uninterp spec fn decrease(&self) -> Option<nat>;
        uninterp spec fn peek(&self, i: int) -> Option<(usize, &'a mut V)>;
    }
}

pub mod microstack {
    use vstd::prelude::*;
    use core::marker::PhantomData;
    #[verifier::external_body]
    #[verifier::accept_recursive_types(V)]
    pub struct Stack<V: Copy, const N: usize> { p: PhantomData<V> }

    impl<V: Copy, const N: usize> Stack<V, N> {
        pub uninterp spec fn view(&self) -> Seq<V>;

        #[verifier::external_body]
        pub fn is_empty(&self) -> (r: bool) ensures r == (self.view().len() == 0) { unimplemented!() }

        #[verifier::external_body]
        pub fn push(&mut self, v: V)
            requires old(self).view().len() < N,
            ensures final(self).view() == old(self).view().push(v),
        { unimplemented!() }
    }
    impl<V: Copy, const N: usize> Clone for Stack<V, N> {
        #[verifier::external_body]
        fn clone(&self) -> (r: Self) ensures r.view() == self.view() { unimplemented!() }
    }
}

pub struct G { pub branches: emap::Map<microstack::Stack<usize, 16>> }

impl G {
    pub fn find(&mut self, v1: usize) -> (ours: usize)
        requires
            old(self).branches.view().len() == 16,
            forall|i: int| 0 <= i < 16 ==> (#[trigger] old(self).branches.view()[i]).is_some(),
            forall|i: int| 0 <= i < 16 ==> (#[trigger] old(self).branches.view()[i]).unwrap().view().len() < 16,
            old(self).branches.view()[0].unwrap().view().len() > 0,
            old(self).branches.view()[1].unwrap().view().len() > 0,
        ensures
            final(self).branches.view().len() == 16,
            forall|i: int| 0 <= i < 16 ==> (#[trigger] final(self).branches.view()[i]).is_some(),
            ours == 1 ==> forall|i: int| 0 <= i < 16 ==> (#[trigger] final(self).branches.view()[i]) == old(self).branches.view()[i] && old(self).branches.view()[i].unwrap().view().len() > 0,
            ours != 1 ==> 2 <= ours < 16,
            ours != 1 ==> old(self).branches.view()[ours as int].unwrap().view().len() == 0,
            ours != 1 ==> final(self).branches.view()[ours as int].unwrap().view() == seq![v1],
            ours != 1 ==> (forall|i: int| 0 <= i < ours ==> (#[trigger] old(self).branches.view()[i]).unwrap().view().len() > 0),
            ours != 1 ==> (forall|i: int| 0 <= i < 16 && i != ours ==> (#[trigger] final(self).branches.view()[i]) == old(self).branches.view()[i]),
    {
        broadcast use emap::axiom_itermut_resolved;
        let mut ours = 1;
        let mut it = self.branches.iter_mut();
        let ghost it0 = it;
        loop
            invariant_except_break
                ours == 1,
                forall|i: int| 0 <= i < it.pos() ==> #[trigger] it.fin()[i] == it.src()[i],
                forall|i: int| 0 <= i < it.pos() ==> (#[trigger] it.src()[i]).unwrap().view().len() > 0,
            invariant
                it.fin() == it0.fin(),
                it.src() == old(self).branches.view(),
                it.src().len() == 16, it.fin().len() == 16,
                it.pos() <= 16,
                forall|i: int| 0 <= i < 16 ==> (#[trigger] it.src()[i]).is_some(),
                forall|i: int| 0 <= i < 16 ==> (#[trigger] it.src()[i]).unwrap().view().len() < 16,
                it.src()[0].unwrap().view().len() > 0,
                it.src()[1].unwrap().view().len() > 0,
            ensures
                it.fin() == it0.fin(),
                it.src() == old(self).branches.view(),
                it.src().len() == 16, it.fin().len() == 16,
                ours == 1 ==> it.pos() == 16 && forall|i: int| 0 <= i < 16 ==> #[trigger] it.fin()[i] == it.src()[i] && it.src()[i].unwrap().view().len() > 0,
                ours != 1 ==> 2 <= ours < 16 && it.pos() == ours + 1
                    && it.src()[ours as int].unwrap().view().len() == 0
                    && it.fin()[ours as int].is_some()
                    && it.fin()[ours as int].unwrap().view() == seq![v1]
                    && (forall|i: int| 0 <= i < ours ==> #[trigger] it.fin()[i] == it.src()[i])
                    && (forall|i: int| 0 <= i < ours ==> (#[trigger] it.src()[i]).unwrap().view().len() > 0),
            decreases 16 - it.pos(),
        {
            match it.next() {
                Some(b) => {
                    if b.1.is_empty() {
                        b.1.push(v1);
                        ours = b.0;
                        break;
                    }
                }
                None => { break; }
            }
        }
        assert(it.fin() == final(self).branches.view());
        assert(has_resolved(it));
        ours
    }
}

} // verus!
fn main() {}
