use vstd::prelude::*;
verus! {
pub mod emap {
    use vstd::prelude::*;
    use core::marker::PhantomData;

    #[verifier::external_body]
    #[verifier::accept_recursive_types(V)]
    pub struct Map<V> { p: PhantomData<V> }

    #[verifier::external_body]
    #[verifier::accept_recursive_types(V)]
    pub struct IterMut<'a, V> { p: PhantomData<&'a mut V> }

    #[verifier::external_body]
    #[verifier::accept_recursive_types(V)]
    pub struct Iter<'a, V> { p: PhantomData<&'a V> }

    impl<V> Map<V> {
        pub uninterp spec fn view(&self) -> Seq<Option<V>>;
    }
    impl<'a, V> IterMut<'a, V> {
        pub uninterp spec fn src(&self) -> Seq<Option<V>>;
        pub uninterp spec fn pos(&self) -> nat;
        #[verifier::prophetic]
        pub uninterp spec fn fin(&self) -> Seq<Option<V>>;
    }
    impl<'a, V> Iter<'a, V> {
        pub uninterp spec fn src(&self) -> Seq<Option<V>>;
        pub uninterp spec fn pos(&self) -> nat;
    }

    impl<V: Clone> Map<V> {
        #[verifier::external_body]
        pub fn with_capacity_some(cap: usize, v: V) -> (r: Self)
            ensures r.view().len() == cap, forall|i: int| 0 <= i < cap ==> (#[trigger] r.view()[i]) == Some(v),
        { unimplemented!() }

        #[verifier::external_body]
        pub fn capacity(&self) -> (r: usize) ensures r == self.view().len() { unimplemented!() }

        #[verifier::external_body]
        pub fn get(&self, k: usize) -> (r: Option<&V>)
            ensures k < self.view().len(), r == (match self.view()[k as int] { Some(v) => Some(&v), None => None::<&V> }),
        { unimplemented!() }

        #[verifier::external_body]
        pub fn get_mut(&mut self, k: usize) -> (r: Option<&mut V>)
            ensures
                k < old(self).view().len(),
                match r {
                    Some(m) => old(self).view()[k as int] == Some(*m)
                        && final(self).view() == old(self).view().update(k as int, Some(*final(m))),
                    None => old(self).view()[k as int].is_none() && final(self).view() == old(self).view(),
                }
        { unimplemented!() }

        #[verifier::external_body]
        pub fn insert(&mut self, k: usize, v: V)
            requires k < old(self).view().len(),
            ensures final(self).view() == old(self).view().update(k as int, Some(v)),
        { unimplemented!() }

        #[verifier::external_body]
        pub fn iter_mut(&mut self) -> (r: IterMut<'_, V>)
            requires forall|i: int| 0 <= i < old(self).view().len() ==> (#[trigger] old(self).view()[i]).is_some(),
            ensures
                r.src() == old(self).view(),
                r.pos() == 0,
                r.fin() == final(self).view(),
                r.fin().len() == r.src().len(),
        { unimplemented!() }
    }

    pub broadcast axiom fn axiom_itermut_resolved<'a, V: Clone + 'a>(it: IterMut<'a, V>)
        ensures
            #[trigger] has_resolved(it) ==> forall|i: int| it.pos() <= i < it.src().len() ==> #[trigger] it.fin()[i] == it.src()[i];

    impl<'a, V: Clone + 'a> Iterator for IterMut<'a, V> {
        type Item = (usize, &'a mut V);
        #[verifier::external_body]
        fn next(&mut self) -> (ret: Option<Self::Item>)
            ensures
                final(self).src() == old(self).src(),
                final(self).fin() == old(self).fin(),
                match ret {
                    Some(km) => old(self).pos() < old(self).src().len()
                        && km.0 == old(self).pos()
                        && final(self).pos() == old(self).pos() + 1
                        && Some(*km.1) == old(self).src()[km.0 as int]
                        && Some(*final(km.1)) == old(self).fin()[km.0 as int],
                    None => old(self).pos() >= old(self).src().len() && final(self).pos() == old(self).pos(),
                }
        { unimplemented!() }
    }
    impl<'a, V: Clone + 'a> vstd::std_specs::iter::IteratorSpecImpl for IterMut<'a, V> {
        uninterp spec fn obeys_prophetic_iter_laws(&self) -> bool;
        #[verifier::prophetic]
        uninterp spec fn remaining(&self) -> Seq<(usize, &'a mut V)>;
        #[verifier::prophetic]
        uninterp spec fn will_return_none(&self) -> bool;
        uninterp spec fn decrease(&self) -> Option<nat>;
        uninterp spec fn peek(&self, i: int) -> Option<(usize, &'a mut V)>;
    }
    impl<V: Clone> Clone for Map<V> {
        #[verifier::external_body]
        fn clone(&self) -> (r: Self) ensures r.view() == self.view() { unimplemented!() }
    }
}

pub mod microstack {
    use vstd::prelude::*;
    use core::marker::PhantomData;
    #[verifier::external_body]
    #[verifier::accept_recursive_types(V)]
    pub struct Stack<V: Copy, const N: usize> { p: PhantomData<V> }

    #[verifier::external_body]
    #[verifier::accept_recursive_types(V)]
    pub struct IntoIter<'a, V: Copy, const N: usize> { p: PhantomData<&'a V> }

    impl<'a, V: Copy, const N: usize> IntoIter<'a, V, N> {
        pub uninterp spec fn src(&self) -> Seq<V>;
        pub uninterp spec fn pos(&self) -> nat;
    }

    impl<V: Copy, const N: usize> Stack<V, N> {
        pub uninterp spec fn view(&self) -> Seq<V>;

        #[verifier::external_body]
        pub fn new() -> (r: Self) ensures r.view().len() == 0 { unimplemented!() }

        #[verifier::external_body]
        pub fn from_vec(v: Vec<V>) -> (r: Self) requires v@.len() <= N, ensures r.view() == v@ { unimplemented!() }

        #[verifier::external_body]
        pub fn is_empty(&self) -> (r: bool) ensures r == (self.view().len() == 0) { unimplemented!() }

        #[verifier::external_body]
        pub fn len(&self) -> (r: usize) ensures r == self.view().len() { unimplemented!() }

        #[verifier::external_body]
        pub fn clear(&mut self) ensures final(self).view().len() == 0 { unimplemented!() }

        #[verifier::external_body]
        pub fn push(&mut self, v: V)
            requires old(self).view().len() < N,
            ensures final(self).view() == old(self).view().push(v),
        { unimplemented!() }

        #[verifier::external_body]
        pub fn into_iter(&self) -> (r: IntoIter<'_, V, N>)
            ensures r.src() == self.view(), r.pos() == 0,
        { unimplemented!() }
    }
    impl<'a, V: Copy, const N: usize> Iterator for IntoIter<'a, V, N> {
        type Item = V;
        #[verifier::external_body]
        fn next(&mut self) -> (ret: Option<V>)
            ensures
                final(self).src() == old(self).src(),
                match ret {
                    Some(x) => old(self).pos() < old(self).src().len() && x == old(self).src()[old(self).pos() as int] && final(self).pos() == old(self).pos() + 1,
                    None => old(self).pos() >= old(self).src().len() && final(self).pos() == old(self).pos(),
                }
        { unimplemented!() }
    }
    impl<'a, V: Copy, const N: usize> vstd::std_specs::iter::IteratorSpecImpl for IntoIter<'a, V, N> {
        uninterp spec fn obeys_prophetic_iter_laws(&self) -> bool;
        #[verifier::prophetic]
        uninterp spec fn remaining(&self) -> Seq<V>;
        #[verifier::prophetic]
        uninterp spec fn will_return_none(&self) -> bool;
        uninterp spec fn decrease(&self) -> Option<nat>;
        uninterp spec fn peek(&self, i: int) -> Option<V>;
    }
    impl<V: Copy, const N: usize> Clone for Stack<V, N> {
        #[verifier::external_body]
        fn clone(&self) -> (r: Self) ensures r.view() == self.view() { unimplemented!() }
    }
}

pub mod micromap {
    use vstd::prelude::*;
    use core::marker::PhantomData;
    #[verifier::external_body]
    #[verifier::accept_recursive_types(K)]
    #[verifier::accept_recursive_types(V)]
    pub struct Map<K, V, const N: usize> { p: PhantomData<(K, V)> }

    #[verifier::external_body]
    #[verifier::accept_recursive_types(K)]
    #[verifier::accept_recursive_types(V)]
    pub struct Iter<'a, K, V> { p: PhantomData<&'a (K, V)> }

    impl<'a, K, V> Iter<'a, K, V> {
        pub uninterp spec fn src(&self) -> Seq<(K, V)>;
        pub uninterp spec fn pos(&self) -> nat;
    }

    pub open spec fn key_index<K, V>(s: Seq<(K, V)>, k: K) -> int
        decreases s.len()
    {
        if s.len() == 0 { -1 } else if s[0].0 == k { 0 } else {
            let r = key_index(s.drop_first(), k);
            if r < 0 { -1 } else { r + 1 }
        }
    }

    impl<K, V, const N: usize> Map<K, V, N> {
        pub uninterp spec fn view(&self) -> Seq<(K, V)>;

        #[verifier::external_body]
        pub fn new() -> (r: Self) ensures r.view().len() == 0 { unimplemented!() }

        #[verifier::external_body]
        pub fn len(&self) -> (r: usize) ensures r == self.view().len() { unimplemented!() }

        #[verifier::external_body]
        pub fn iter(&self) -> (r: Iter<'_, K, V>) ensures r.src() == self.view(), r.pos() == 0 { unimplemented!() }
    }
    impl<K: PartialEq, V, const N: usize> Map<K, V, N> {
        #[verifier::external_body]
        pub fn insert(&mut self, k: K, v: V) -> (r: Option<V>)
            requires key_index(old(self).view(), k) >= 0 || old(self).view().len() < N,
            ensures
                key_index(old(self).view(), k) >= 0 ==> final(self).view() == old(self).view().update(key_index(old(self).view(), k), (old(self).view()[key_index(old(self).view(), k)].0, v)),
                key_index(old(self).view(), k) < 0 ==> final(self).view() == old(self).view().push((k, v)),
        { unimplemented!() }
    }
    impl<'a, K, V, const N: usize> IntoIterator for &'a Map<K, V, N> {
        type Item = (&'a K, &'a V);
        type IntoIter = Iter<'a, K, V>;
        #[verifier::external_body]
        fn into_iter(self) -> (r: Iter<'a, K, V>) ensures r.src() == self.view(), r.pos() == 0 { unimplemented!() }
    }
    impl<'a, K, V> Iterator for Iter<'a, K, V> {
        type Item = (&'a K, &'a V);
        #[verifier::external_body]
        fn next(&mut self) -> (ret: Option<(&'a K, &'a V)>)
            ensures
                final(self).src() == old(self).src(),
                match ret {
                    Some(kv) => old(self).pos() < old(self).src().len()
                        && *kv.0 == old(self).src()[old(self).pos() as int].0
                        && *kv.1 == old(self).src()[old(self).pos() as int].1
                        && final(self).pos() == old(self).pos() + 1,
                    None => old(self).pos() >= old(self).src().len() && final(self).pos() == old(self).pos(),
                }
        { unimplemented!() }
    }
    impl<'a, K, V> vstd::std_specs::iter::IteratorSpecImpl for Iter<'a, K, V> {
        uninterp spec fn obeys_prophetic_iter_laws(&self) -> bool;
        #[verifier::prophetic]
        uninterp spec fn remaining(&self) -> Seq<(&'a K, &'a V)>;
        #[verifier::prophetic]
        uninterp spec fn will_return_none(&self) -> bool;
        uninterp spec fn decrease(&self) -> Option<nat>;
        uninterp spec fn peek(&self, i: int) -> Option<(&'a K, &'a V)>;
    }
    impl<K: Clone, V: Clone, const N: usize> Clone for Map<K, V, N> {
        #[verifier::external_body]
        fn clone(&self) -> (r: Self) ensures r.view() == self.view() { unimplemented!() }
    }
}


pub const MAX_BRANCHES: usize = 16;
pub const MAX_BRANCH_SIZE: usize = 16;
pub const BRANCH_NONE: usize = 0;
pub const BRANCH_STATIC: usize = 1;

#[verifier::external_body]
pub struct Hex { x: u8 }
impl Hex {
    pub uninterp spec fn view(&self) -> Seq<u8>;
    #[verifier::external_body]
    pub const fn empty() -> (r: Self) ensures r.view().len() == 0 { unimplemented!() }
}
impl Clone for Hex {
    #[verifier::external_body]
    fn clone(&self) -> (r: Self) ensures r == *self { unimplemented!() }
}

#[derive(PartialEq, Eq, Clone, Copy)]
pub enum Label {
    Greek(char),
    Alpha(usize),
    Str([char; 8]),
}

#[derive(PartialEq, Clone)]
pub enum Persistence {
    Empty,
    Stored,
    Taken,
}

#[derive(Clone)]
pub struct Vertex<const N: usize> {
    pub branch: usize,
    pub data: Hex,
    pub persistence: Persistence,
    pub edges: micromap::Map<Label, usize, N>,
}

pub struct Sodg<const N: usize> {
    pub stores: emap::Map<usize>,
    pub branches: emap::Map<microstack::Stack<usize, MAX_BRANCH_SIZE>>,
    pub vertices: emap::Map<Vertex<N>>,
    pub next_v: usize,
}

impl<const N: usize> Sodg<N> {
    pub open spec fn basic(&self) -> bool {
        &&& self.stores.view().len() == 16
        &&& self.branches.view().len() == 16
        &&& forall|i: int| 0 <= i < 16 ==> (#[trigger] self.stores.view()[i]).is_some()
        &&& forall|i: int| 0 <= i < 16 ==> (#[trigger] self.branches.view()[i]).is_some()
        &&& forall|i: int| 0 <= i < self.vertices.view().len() ==> (#[trigger] self.vertices.view()[i]).is_some()
    }

    pub fn add(&mut self, v1: usize)
        requires old(self).basic(),
        ensures v1 < old(self).vertices.view().len(),
    {
        self.vertices.get_mut(v1).unwrap().branch = 1;
    }

    pub fn put(&mut self, v: usize, d: &Hex)
        requires old(self).basic(),
            forall|i: int| 0 <= i < old(self).vertices.view().len() ==> (#[trigger] old(self).vertices.view()[i]).unwrap().branch < 16,
            forall|b: int| 0 <= b < 16 ==> (#[trigger] old(self).stores.view()[b]).unwrap() < 1000,
        ensures v < old(self).vertices.view().len(),
    {
        let vtx = self.vertices.get_mut(v).unwrap();
        vtx.persistence = Persistence::Stored;
        vtx.data = d.clone();
        *self.stores.get_mut(vtx.branch).unwrap() += 1;
    }
}

} // verus!
fn main() {}
