use vstd::prelude::*;
verus! {

pub mod emap {
    use vstd::prelude::*;
    use core::marker::PhantomData;

    #[verifier::external_body]
    #[verifier::accept_recursive_types(V)]
    pub struct Map<V> { p: PhantomData<V> }

    #[verifier::external_body]
    #[verifier::accept_recursive_types(V)]
    pub struct Iter<'a, V> { p: PhantomData<&'a V> }

    impl<V> Map<V> {
        pub uninterp spec fn view(&self) -> Seq<Option<V>>;
    }
    impl<'a, V> Iter<'a, V> {
        pub uninterp spec fn src(&self) -> Seq<Option<V>>;
        pub uninterp spec fn pos(&self) -> nat;
    }
    impl<V: Clone> Map<V> {
        #[verifier::external_body]
        pub fn iter(&self) -> (r: Iter<'_, V>)
            ensures r.src() == self.view(), r.pos() == 0,
        { unimplemented!() }
    }
    impl<'a, V> Iter<'a, V> {
        // documented meaning of Iterator::find, stated for this iterator (all slots Some)
        #[verifier::external_body]
        pub fn find<P: Fn(&(usize, &'a V)) -> bool>(&mut self, p: P) -> (r: Option<(usize, &'a V)>)
            requires
                forall|i: int| 0 <= i < old(self).src().len() ==> (#[trigger] old(self).src()[i]).is_some(),
                forall|i: int| old(self).pos() <= i < old(self).src().len() ==> p.requires((&(i as usize, &old(self).src()[i].unwrap()),)),
            ensures
                match r {
                    Some(x) => old(self).pos() <= x.0 < old(self).src().len()
                        && *x.1 == old(self).src()[x.0 as int].unwrap()
                        && p.ensures((&(x.0, &old(self).src()[x.0 as int].unwrap()),), true)
                        && forall|j: int| old(self).pos() <= j < x.0 ==> p.ensures((&(j as usize, &(#[trigger] old(self).src()[j]).unwrap()),), false),
                    None => forall|j: int| old(self).pos() <= j < old(self).src().len() ==> p.ensures((&(j as usize, &(#[trigger] old(self).src()[j]).unwrap()),), false),
                }
        { unimplemented!() }
    }
}

pub struct Vertex { pub branch: usize }
impl Clone for Vertex { fn clone(&self) -> Self { Vertex { branch: self.branch } } }

pub struct Sodg { pub vertices: emap::Map<Vertex>, pub next_v: usize }

impl Sodg {
    pub fn next_id(&mut self) -> (r: usize)
        requires
            forall|i: int| 0 <= i < old(self).vertices.view().len() ==> (#[trigger] old(self).vertices.view()[i]).is_some(),
            old(self).vertices.view().len() < usize::MAX,
            exists|i: int| old(self).next_v <= i < old(self).vertices.view().len() && (#[trigger] old(self).vertices.view()[i]).unwrap().branch == 0,
        ensures
            r < old(self).vertices.view().len(),
            old(self).vertices.view()[r as int].unwrap().branch == 0,
            r >= old(self).next_v,
            final(self).next_v == r + 1,
            final(self).vertices == old(self).vertices,
            forall|j: int| old(self).next_v <= j < r ==> (#[trigger] old(self).vertices.view()[j]).unwrap().branch != 0,
    {
        let mut id = self.next_v;
        id = self
            .vertices
            .iter()
            .find(|(v, vtx): &(usize, &Vertex)| -> (b: bool) ensures b == (vtx.branch == 0 && *v >= id) { vtx.branch == 0 && *v >= id })
            .map(|(v, _): (usize, &Vertex)| -> (o: usize) ensures o == v { v })
            .unwrap();
        let next = id + 1;
        if next > self.next_v {
            self.next_v = next;
        }
        id
    }
}

} // verus!
fn main() {}
