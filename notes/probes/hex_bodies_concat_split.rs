use vstd::prelude::*;
use std::ops::{Index, Range, RangeFrom, RangeFull, RangeInclusive, RangeTo, RangeToInclusive};
verus! {

pub const HEX_SIZE: usize = 8;

pub assume_specification<T: Clone>[ <[T]>::to_vec ](s: &[T]) -> (r: Vec<T>)
    ensures r@ == s@;


#[derive(Clone)]
pub enum Hex {
    Vector(Vec<u8>),
    Bytes([u8; HEX_SIZE], usize),
}

impl Hex {
    pub open spec fn inv(&self) -> bool {
        match self { Hex::Vector(_) => true, Hex::Bytes(_, n) => *n <= 8 }
    }
    pub open spec fn view(&self) -> Seq<u8> {
        match self { Hex::Vector(v) => v@, Hex::Bytes(a, n) => a@.subrange(0, *n as int) }
    }

    pub fn bytes(&self) -> (r: &[u8])
        requires self.inv(),
        ensures r@ == self.view(),
    {
        match self {
            Self::Vector(v) => v,
            Self::Bytes(array, size) => &array[..*size],
        }
    }

    pub fn len(&self) -> (r: usize)
        requires self.inv(),
        ensures r == self.view().len(),
    {
        match self {
            Self::Vector(x) => x.len(),
            Self::Bytes(_, size) => *size,
        }
    }

    pub fn from_slice(slice: &[u8]) -> (r: Self)
        ensures r.inv(), r.view() == slice@,
    {
        if slice.len() <= HEX_SIZE {
            Self::Bytes(
                {
                    let mut x = [0; HEX_SIZE];
                    x[..slice.len()].copy_from_slice(slice);
                    x
                },
                slice.len(),
            )
        } else {
            Self::Vector(slice.to_vec())
        }
    }

    pub fn from_vec(bytes: Vec<u8>) -> (r: Self)
        ensures r.inv(), r.view() == bytes@,
    {
        if bytes.len() <= HEX_SIZE {
            Self::from_slice(&bytes)
        } else {
            Self::Vector(bytes)
        }
    }

    pub fn byte_at(&self, pos: usize) -> (r: u8)
        requires self.inv(), pos < self.view().len(),
        ensures r == self.view()[pos as int],
    {
        self.bytes()[pos]
    }

    pub fn tail(&self, skip: usize) -> (r: Self)
        requires self.inv(), skip <= self.view().len(),
        ensures r.inv(), r.view() == self.view().skip(skip as int),
    {
        Self::from_vec(self.bytes()[skip..].to_vec())
    }

    pub fn concat(&self, h: &Self) -> (r: Self)
        requires self.inv(), h.inv(), self.view().len() + h.view().len() <= usize::MAX,
        ensures r.inv(),
            (self is Vector) ==> r.view() =~= self.view() + h.view(),
            (self is Bytes && self.view().len() + h.view().len() <= 8) ==> r.view() =~= self.view() + h.view(),
            (self is Bytes && self.view().len() + h.view().len() > 8 && self.view().len() == 8) ==> r.view() =~= self.view() + h.view(),
            (self is Bytes && self.view().len() + h.view().len() > 8 && self.view().len() < 8) ==> r.view() =~= self.view() + h.view(),
    {
        match &self {
            Self::Vector(v) => {
                let mut vx = v.clone();
                vx.extend_from_slice(h.bytes());
                Self::Vector(vx)
            }
            Self::Bytes(b, l) => {
                if l + h.len() <= HEX_SIZE {
                    let mut bytes = *b;
                    bytes[*l..*l + h.len()].copy_from_slice(h.bytes());
                    Self::Bytes(bytes, l + h.len())
                } else {
                    let mut v = Vec::new();
                    v.extend_from_slice(b);
                    v.extend_from_slice(h.bytes());
                    Self::Vector(v)
                }
            }
        }
    }
}

} // verus!
fn main() {}
