#!/bin/sh
# Offline setup: nothing to build ahead of time except the Kani harness crate (so that the first
# check does not pay for compiling anyhow/hex under Kani). Safe to re-run.
set -e
cd "$(dirname "$0")"
mkdir -p build evidence replays
verus --version >/dev/null
python3 tools/kanirun.py --prebuild || true
echo setup-ok
