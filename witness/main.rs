// Bounded WITNESS SEARCH (never decides a property that the verifier has decided; see DESIGN.md §3.8).
//
// Explores every history of at most DEPTH calls of add/bind/put/data/next_id (+ clone at the end) over
// CAP ids, 3 labels and 2 data values (one inline, one heap) that stays within the limits and documented
// preconditions, on the REAL crate (path dependency on the repository under test), side by side with an
// executable transcription of the step relations of model/model.rs, and reports the first history on
// which an observable answer of the real crate differs from the model, classified by the property it
// contradicts. States are de-duplicated on the MODEL state (breadth first), so the search is exhaustive
// for a correct implementation and best-effort for an incorrect one.
use sodg::{Hex, Label, Sodg};
use std::collections::{HashSet, VecDeque};
use std::panic::{catch_unwind, AssertUnwindSafe};

const N: usize = 2; // edge capacity of the primary configuration
const N2: usize = 5; // second configuration (C19)

#[derive(Clone, PartialEq, Eq, Hash, Debug)]
struct Model {
    tag: Vec<usize>,
    pers: Vec<u8>, // 0 Empty 1 Stored 2 Taken
    data: Vec<u8>, // index of the data value (meaningful when pers != 0)
    edges: Vec<Vec<(u8, usize)>>,
    members: Vec<Vec<usize>>,
    counter: Vec<usize>,
    next_v: usize,
}

#[derive(Clone, Copy, Debug, PartialEq, Eq, Hash)]
enum Op {
    Add(usize),
    Bind(usize, usize, u8),
    Put(usize, u8),
    Data(usize),
    NextId,
}

fn label(l: u8) -> Label {
    match l {
        0 => Label::Alpha(0),
        1 => Label::Greek('x'),
        _ => Label::Str(['a', 'b', ' ', ' ', ' ', ' ', ' ', ' ']),
    }
}
fn datum(d: u8) -> Hex {
    if d == 0 { Hex::from_slice(&[7, 7]) } else { Hex::from_slice(&[1, 2, 3, 4, 5, 6, 7, 8, 9, 10]) }
}

impl Model {
    fn empty(cap: usize) -> Self {
        let mut members = vec![Vec::new(); 16];
        members[0] = vec![0];
        members[1] = vec![0];
        Model { tag: vec![0; cap], pers: vec![0; cap], data: vec![0; cap], edges: vec![Vec::new(); cap], members, counter: vec![0; 16], next_v: 0 }
    }
    fn present(&self, v: usize) -> bool { v < self.tag.len() && self.tag[v] != 0 }
    fn first_free(&self) -> usize { (2..16).find(|b| self.members[*b].is_empty()).unwrap_or(16) }
    fn u01(&self, v: usize) -> usize { if self.pers[v] == 1 { 1 } else { 0 } }
    /// is the call within the limits and documented preconditions (for edge capacity n)?
    fn pre(&self, op: Op, n: usize) -> bool {
        match op {
            Op::Add(v) => v < self.tag.len(),
            Op::Put(v, _) | Op::Data(v) => self.present(v),
            Op::NextId => (self.next_v..self.tag.len()).any(|v| self.tag[v] == 0),
            Op::Bind(v1, v2, l) => {
                self.present(v1) && self.present(v2) && v1 != v2
                    && (self.edges[v1].iter().any(|e| e.0 == l) || self.edges[v1].len() < n)
                    && !(self.tag[v1] == 1 && self.tag[v2] == 1 && self.first_free() >= 16)
                    && !(self.tag[v1] == 1 && self.tag[v2] >= 2 && self.members[self.tag[v2]].len() >= 16)
                    && !(self.tag[v1] >= 2 && self.tag[v2] == 1 && self.members[self.tag[v1]].len() >= 16)
            }
        }
    }
    /// the step relations of model/model.rs; returns the answer of the call
    fn step(&mut self, op: Op) -> Option<Vec<u8>> {
        match op {
            Op::Add(v) => {
                if self.tag[v] == 0 { self.tag[v] = 1; self.pers[v] = 0; self.data[v] = 0; self.edges[v].clear(); }
                None
            }
            Op::Put(v, d) => {
                let t = self.tag[v];
                if t >= 2 && self.pers[v] != 1 { self.counter[t] += 1; }
                self.pers[v] = 1;
                self.data[v] = d;
                None
            }
            Op::Data(v) => {
                let r = if self.pers[v] == 0 { None } else { Some(datum(self.data[v]).to_vec()) };
                let b = self.tag[v];
                let collects = b >= 2 && self.pers[v] == 1 && self.counter[b] == 1;
                if collects {
                    for u in 0..self.tag.len() { if self.tag[u] == b { self.tag[u] = 0; } }
                    self.members[b].clear();
                    self.counter[b] = 0;
                } else if b >= 2 && self.pers[v] == 1 {
                    self.counter[b] -= 1;
                }
                if self.pers[v] == 1 { self.pers[v] = 2; }
                // the answer: None is encoded as the empty marker below by the caller
                r
            }
            Op::NextId => {
                let r = (self.next_v..self.tag.len()).find(|v| self.tag[*v] == 0).unwrap();
                self.next_v = r + 1;
                Some(vec![r as u8])
            }
            Op::Bind(v1, v2, l) => {
                if let Some(e) = self.edges[v1].iter_mut().find(|e| e.0 == l) { e.1 = v2; } else { self.edges[v1].push((l, v2)); }
                let (t1, t2) = (self.tag[v1], self.tag[v2]);
                if t1 == 1 && t2 == 1 {
                    let b = self.first_free();
                    self.tag[v1] = b; self.tag[v2] = b;
                    self.members[b] = vec![v1, v2];
                    self.counter[b] = self.u01(v1) + self.u01(v2);
                } else if t1 == 1 {
                    self.tag[v1] = t2; self.members[t2].push(v1); self.counter[t2] += self.u01(v1);
                } else if t2 == 1 {
                    self.tag[v2] = t1; self.members[t1].push(v2); self.counter[t1] += self.u01(v2);
                }
                None
            }
        }
    }
}

/// everything a user can observe without changing the graph (data through a clone)
#[derive(PartialEq, Eq, Debug, Clone)]
struct Obs {
    keys: Vec<usize>,
    len: usize,
    kids: Vec<Vec<(String, usize)>>,
    kid: Vec<Vec<Option<usize>>>,
    data: Vec<Option<Vec<u8>>>,
}

fn obs_model(m: &Model) -> Obs {
    let keys: Vec<usize> = (0..m.tag.len()).filter(|v| m.tag[*v] != 0).collect();
    Obs {
        len: keys.len(),
        kids: keys.iter().map(|v| m.edges[*v].iter().map(|e| (label(e.0).to_string(), e.1)).collect()).collect(),
        kid: keys.iter().map(|v| (0..3u8).map(|l| m.edges[*v].iter().find(|e| e.0 == l).map(|e| e.1)).collect()).collect(),
        data: keys.iter().map(|v| if m.pers[*v] == 0 { None } else { Some(datum(m.data[*v]).to_vec()) }).collect(),
        keys,
    }
}

fn obs_real<const K: usize>(g: &Sodg<K>) -> Result<Obs, String> {
    catch_unwind(AssertUnwindSafe(|| {
        let keys = g.keys();
        Obs {
            len: g.len(),
            kids: keys.iter().map(|v| g.kids(*v).map(|(a, t)| (a.to_string(), *t)).collect()).collect(),
            kid: keys.iter().map(|v| (0..3u8).map(|l| g.kid(*v, label(l))).collect()).collect(),
            data: keys.iter().map(|v| { let mut c = g.clone(); c.data(*v).map(|h| h.to_vec()) }).collect(),
            keys,
        }
    })).map_err(|_| "panic while observing".to_string())
}

fn apply_real<const K: usize>(g: &mut Sodg<K>, op: Op) -> Result<Option<Vec<u8>>, String> {
    catch_unwind(AssertUnwindSafe(|| match op {
        Op::Add(v) => { g.add(v); None }
        Op::Bind(a, b, l) => { g.bind(a, b, label(l)); None }
        Op::Put(v, d) => { g.put(v, &datum(d)); None }
        Op::Data(v) => g.data(v).map(|h| h.to_vec()),
        Op::NextId => Some(vec![g.next_id() as u8]),
    })).map_err(|e| {
        if let Some(s) = e.downcast_ref::<String>() { s.clone() } else if let Some(s) = e.downcast_ref::<&str>() { s.to_string() } else { "panic".to_string() }
    })
}

fn classify(before: &Obs, want: &Obs, got: &Obs, op: Op) -> Vec<&'static str> {
    let mut k = Vec::new();
    let lost: Vec<&usize> = want.keys.iter().filter(|v| !got.keys.contains(v)).collect();
    let extra: Vec<&usize> = got.keys.iter().filter(|v| !want.keys.contains(v)).collect();
    if !lost.is_empty() { k.push("C01"); k.push("C02"); }      // a vertex that must stay was removed
    if !extra.is_empty() { k.push("C02"); k.push("C06"); }     // a vertex that must go (or must not exist) is there
    if got.len != got.keys.len() { k.push("C01"); }
    // answers on vertices present in both
    for (i, v) in want.keys.iter().enumerate() {
        if let Some(j) = got.keys.iter().position(|x| x == v) {
            if want.kids[i] != got.kids[j] || want.kid[i] != got.kid[j] || want.data[i] != got.data[j] {
                k.push("C03");
                if matches!(op, Op::Add(_)) { k.push("C04"); }
            }
        }
    }
    if let Op::Add(v) = op {
        if before.keys.contains(&v) && before != got { k.push("C04"); }
    }
    k.sort(); k.dedup();
    k
}

fn main() {
    let args: Vec<String> = std::env::args().collect();
    let depth: usize = args.get(1).and_then(|s| s.parse().ok()).unwrap_or(6);
    let cap: usize = args.get(2).and_then(|s| s.parse().ok()).unwrap_or(4);
    let max_states: usize = args.get(3).and_then(|s| s.parse().ok()).unwrap_or(400_000);
    std::panic::set_hook(Box::new(|_| {}));
    let mut ops = vec![Op::NextId];
    for v in 0..cap { ops.push(Op::Add(v)); ops.push(Op::Data(v)); for d in 0..2 { ops.push(Op::Put(v, d)); } }
    for a in 0..cap { for b in 0..cap { if a != b { for l in 0..3 { ops.push(Op::Bind(a, b, l)); } } } }

    let m0 = Model::empty(cap);
    let g0: Sodg<N> = Sodg::empty(cap);
    let h0: Sodg<N2> = Sodg::empty(cap + 3);
    let mut seen: HashSet<Model> = HashSet::new();
    seen.insert(m0.clone());
    let mut queue: VecDeque<(Model, Sodg<N>, Sodg<N2>, Vec<Op>)> = VecDeque::new();
    queue.push_back((m0, g0, h0, Vec::new()));
    let mut transitions: u64 = 0;
    let mut findings: Vec<String> = Vec::new();
    let mut found_kinds: HashSet<String> = HashSet::new();
    let report = |kinds: &[&str], what: String, hist: &Vec<Op>, findings: &mut Vec<String>, found: &mut HashSet<String>| {
        let key = kinds.join("+");
        if found.insert(key.clone()) {
            findings.push(format!("{{\"properties\": {:?}, \"what\": {:?}, \"history\": {:?}}}", kinds, what, format!("{:?}", hist)));
        }
    };
    while let Some((m, g, h, hist)) = queue.pop_front() {
        if hist.len() >= depth { continue; }
        let before = obs_model(&m);
        for &op in &ops {
            if !m.pre(op, N) { continue; }
            transitions += 1;
            let mut m2 = m.clone();
            let want_ans = m2.step(op);
            let want = obs_model(&m2);
            let mut hist2 = hist.clone();
            hist2.push(op);
            // ---- primary configuration ----
            let mut g2 = g.clone();
            match apply_real(&mut g2, op) {
                Err(p) => { report(&["C02", "C07"], format!("panic within the limits: {}", p), &hist2, &mut findings, &mut found_kinds); continue; }
                Ok(ans) => {
                    if ans != want_ans {
                        let kinds: Vec<&str> = if matches!(op, Op::NextId) { vec!["C05"] } else { vec!["C03"] };
                        report(&kinds, format!("answer of the last call: real {:?}, expected {:?}", ans, want_ans), &hist2, &mut findings, &mut found_kinds);
                    }
                }
            }
            let got = match obs_real(&g2) { Ok(o) => o, Err(p) => { report(&["C02", "C07"], p, &hist2, &mut findings, &mut found_kinds); continue; } };
            if got != want {
                let kinds = classify(&before, &want, &got, op);
                report(&kinds, format!("observation after the last call: real {:?}, expected {:?}", got, want), &hist2, &mut findings, &mut found_kinds);
            }
            // ---- clone (C10): the clone must observe the same, and the same next_id ----
            {
                let c = g2.clone();
                match obs_real(&c) {
                    Ok(oc) => {
                        if oc != got { report(&["C10"], format!("clone observes {:?}, original {:?}", oc, got), &hist2, &mut findings, &mut found_kinds); }
                        if m2.pre(Op::NextId, N) {
                            let (mut c1, mut g3) = (c.clone(), g2.clone());
                            let (a, b) = (apply_real(&mut c1, Op::NextId), apply_real(&mut g3, Op::NextId));
                            if a != b { report(&["C05", "C10"], format!("next_id() on the clone {:?}, on the original {:?}", a, b), &hist2, &mut findings, &mut found_kinds); }
                        }
                        // one more step on both: same answers, same observation (collections, counters)
                        for &op2 in &ops {
                            if !m2.pre(op2, N) || !matches!(op2, Op::Data(_)) { continue; }
                            let (mut c1, mut g3) = (c.clone(), g2.clone());
                            let (a, b) = (apply_real(&mut c1, op2), apply_real(&mut g3, op2));
                            if a != b || obs_real(&c1).ok() != obs_real(&g3).ok() {
                                let mut h3 = hist2.clone(); h3.push(op2);
                                report(&["C10"], "clone and original diverge after the same call".to_string(), &h3, &mut findings, &mut found_kinds);
                            }
                        }
                    }
                    Err(p) => report(&["C10"], p, &hist2, &mut findings, &mut found_kinds),
                }
            }
            // ---- second configuration (C19): same answers whenever the call fits both ----
            let mut h2 = h.clone();
            if m.pre(op, N2) {
                match apply_real(&mut h2, op) {
                    Err(p) => report(&["C19"], format!("panics under N={} capacity={}: {}", N2, cap + 3, p), &hist2, &mut findings, &mut found_kinds),
                    Ok(ans2) => {
                        if ans2 != want_ans && !matches!(op, Op::NextId) {
                            report(&["C19"], format!("answer differs between configurations: {:?} vs {:?}", ans2, want_ans), &hist2, &mut findings, &mut found_kinds);
                        }
                        if let Ok(o2) = obs_real(&h2) { if o2 != got && got == want {
                            report(&["C19"], format!("observation differs between configurations: {:?} vs {:?}", o2, got), &hist2, &mut findings, &mut found_kinds);
                        } }
                    }
                }
            }
            if seen.len() < max_states && seen.insert(m2.clone()) {
                queue.push_back((m2, g2, h2, hist2));
            }
        }
    }
    println!("{{\"depth\": {}, \"cap\": {}, \"states\": {}, \"transitions\": {}, \"findings\": [{}]}}", depth, cap, seen.len(), transitions, findings.join(", "));
}
