#!/bin/sh
# maintenance: after a change of the shim / model / overlays, record what verifies now (baseline + trusted whitelist) for
# every unit, then regenerate every evidence file and the manifest. Never used by a registered command.
cd "$(dirname "$0")/.."
for p in $(python3 -c "import sys; sys.path.insert(0,'tools'); import props; print(' '.join(sorted(props.PROPS)))"); do
  ./check "$p" --freeze-baseline | tail -1
done
sh tools/refresh_all.sh
