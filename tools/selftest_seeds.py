import json,subprocess,sys
seeds=sys.argv[1].split(',')
props=sys.argv[2].split(',')
for s in seeds:
    pid,mk=s.split(':')
    r=subprocess.run(['python3','/verif/tools/seedtest.py','run','/verif/seeded/%s-%s/patch.diff'%(pid,mk)]+props,capture_output=True,text=True)
    try:
        d=json.loads(r.stdout)
    except Exception:
        print(s,'ERROR',r.stdout[-500:],r.stderr[-500:]); continue
    row=[]
    for p in props:
        e=d[p]['exit']
        row.append('%s=%s'%(p,{0:'ok',1:'VIOL',2:'undec'}.get(e,e)))
    print(s,' '.join(row))
    seen=set()
    for p in props:
        fo=[l.split(': ')[1].replace('U_ops/','').replace('K_hex/','') for l in d[p]['lines'] if l.startswith('failed obligation')]
        if fo: print('     ',p,'failed:',' '.join(fo))
        for l in d[p]['lines']:
            if l.startswith('UNDECIDED') and 'vacuity' not in l and 'functional contract' not in l and l not in seen:
                seen.add(l); print('     ',l[:220])
