#!/usr/bin/env python3
"""Seeded-defect harness.
  seedtest.py confirm <worktree> <mK>        confirm in the scratch worktree: suite passes with the patch, demo fails with / passes without
  seedtest.py run <patch.diff> <P1> [P2..]   apply to /repo, run ./check for each property (quick tier), undo
"""
import os, re, subprocess, sys, shutil, json

VERIF = os.path.dirname(os.path.dirname(os.path.abspath(__file__)))

def sh(cmd, cwd=None, timeout=3600):
    p = subprocess.run(cmd, shell=True, cwd=cwd, capture_output=True, text=True, timeout=timeout)
    return p.returncode, p.stdout + p.stderr

def confirm(wt, mk):
    out = os.path.join(wt, 'out', mk)
    patch = os.path.join(out, 'patch.diff')
    rc, o = sh('git status --short -- src', wt)
    assert o.strip() == '', 'worktree not clean: ' + o
    res = {}
    os.makedirs(os.path.join(wt, 'tests'), exist_ok=True)
    demo = os.path.join(wt, 'tests', 'demo_%s.rs' % mk)
    # without the change
    shutil.copy(os.path.join(out, 'demo.rs'), demo)
    rc, o = sh('cargo test --offline --test demo_%s 2>&1 | tail -25' % mk, wt)
    res['demo_without'] = 'pass' if 'test result: ok' in o and 'FAILED' not in o else 'FAIL'
    os.remove(demo)
    rc, o = sh('git apply %s' % patch, wt)
    assert rc == 0, 'patch does not apply: ' + o
    try:
        rc, o = sh('cargo test --offline 2>&1 | grep -E "^test result|error"', wt)
        m = re.findall(r'test result: (\w+)\. (\d+) passed; (\d+) failed', o)
        res['suite_with'] = m
        res['suite_ok'] = len(m) >= 2 and all(x[0] == 'ok' for x in m) and int(m[0][1]) == 94 and 'error' not in o
        shutil.copy(os.path.join(out, 'demo.rs'), demo)
        rc, o = sh('cargo test --offline --test demo_%s 2>&1 | tail -25' % mk, wt)
        res['demo_with'] = 'FAIL' if ('test result: FAILED' in o or 'error: test failed' in o) else 'pass'
        res['demo_with_tail'] = '\n'.join(l for l in o.split('\n') if 'panicked' in l or 'left' in l or 'right' in l or 'test result' in l)[-600:]
    finally:
        sh('git checkout -- src', wt)
        shutil.rmtree(os.path.join(wt, 'tests'), ignore_errors=True)
    res['confirmed'] = res['demo_without'] == 'pass' and res['suite_ok'] and res['demo_with'] == 'FAIL'
    return res

def run(patch, props, tier='quick'):
    rc, o = sh('git -C /repo status --short')
    assert o.strip() == '', '/repo not clean: ' + o
    rc, o = sh('git -C /repo apply %s' % patch)
    assert rc == 0, 'patch does not apply to /repo: ' + o
    out = {}
    try:
        for p in props:
            rc, o = sh('./check %s --tier %s' % (p, tier), VERIF)
            lines = [l for l in o.split('\n') if l.startswith(('VIOLATION', 'UNDECIDED', 'OK ', 'KNOWN-FINDING', 'failed obligation'))]
            out[p] = dict(exit=rc, lines=[l[:300] for l in lines])
    finally:
        sh('git -C /repo checkout -- .')
    return out

if __name__ == '__main__':
    if sys.argv[1] == 'confirm':
        print(json.dumps(confirm(sys.argv[2], sys.argv[3]), indent=1))
    else:
        print(json.dumps(run(sys.argv[2], sys.argv[3:]), indent=1))
