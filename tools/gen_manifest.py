#!/usr/bin/env python3
"""Writes MANIFEST.json from tools/props.py (claimed checks) + the not-applicable table below."""
import json
import os
import sys
sys.path.insert(0, os.path.dirname(os.path.abspath(__file__)))
import props

VERIF = os.path.dirname(os.path.dirname(os.path.abspath(__file__)))

NA_REASONS = props.NOT_APPLICABLE

checks = []
for pid in sorted(props.PROPS):
    P = props.PROPS[pid]
    checks.append(dict(
        property_id=pid,
        quick_cmd='./check %s --tier quick' % pid,
        thorough_cmd='./check %s --tier thorough' % pid,
        evidence_file='/verif/evidence/%s.json' % pid,
        replay_cmd_template='cat {path}',
        engine='verus+kani' if any(x['name'].startswith('kani') for x in P.get('parts', [])) else 'verus',
        level_claimed=dict(category=P['level'], text=P['level_text'], design_ref=P.get('design_ref', 'DESIGN.md §4')),
        level_note=P['level_note'],
        technique=P['technique'],
    ))
all_ids = [json.loads(l)['id'] for l in open(os.path.join(VERIF, 'properties.jsonl'))]
na = [dict(property_id=i, reason=NA_REASONS[i]) for i in all_ids if i not in props.PROPS]
m = dict(
    version=1,
    setup_cmd='sh ./setup.sh',
    hooks=dict(guard='verif (cargo feature; reserved, unused: the proofs need no instrumentation)',
               enable='none needed: checks read /repo/src directly (extraction) and include src/hex.rs by #[path]',
               baseline_off_cmd=props.BASELINE_OFF_CMD,
               source_commits=[], add_only=True),
    engines=[
        dict(name='verus', path='/usr/local/bin/verus', serves_properties=sorted(props.PROPS),
             kind_free_text='deductive verifier (contracts on mechanically extracted real functions), Z3 back end'),
        dict(name='kani', path='cargo kani', serves_properties=[p for p in sorted(props.PROPS) if any(x['name'].startswith('kani') for x in props.PROPS[p].get('parts', []))],
             kind_free_text='CBMC-based model checker; loop-free full-domain harnesses on the real src/hex.rs (complete), '
                            'bounded harnesses labelled as such, concrete playback for replay'),
    ],
    checks=checks,
    notes='exit 0 = all obligations of the property discharged; exit 1 = VIOLATION; exit 2 = UNDECIDED '
          '(tool/extraction problem, never an alarm). See DESIGN.md.',
    not_applicable=na,
)
with open(os.path.join(VERIF, 'MANIFEST.json'), 'w') as f:
    json.dump(m, f, indent=1)
print('MANIFEST.json: %d checks, %d not applicable' % (len(checks), len(na)))
