#!/bin/sh
# run every claimed check (quick tier) so that the committed evidence files describe the committed machinery
cd "$(dirname "$0")/.."
rc=0
for p in $(python3 -c "import sys; sys.path.insert(0,'tools'); import props; print(' '.join(sorted(props.PROPS)))"); do
  ./check "$p" --tier quick | tail -1 || rc=1
done
python3 tools/gen_manifest.py
exit $rc
