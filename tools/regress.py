#!/usr/bin/env python3
"""Regression run over everything in seeded/: every stored property-breaking change must still be reported under its own
property (or end in the recorded exit 2), every stored behaviour-preserving refactoring must end in exit 0 on every check
that looks at the file it touches. Works on a scratch copy of /repo/src (never touches /repo); not a registered check.

  tools/regress.py [name-prefix ...]      e.g. tools/regress.py C13 harmless-slice
"""
import json
import os
import re
import shutil
import subprocess
import sys

VERIF = os.path.dirname(os.path.dirname(os.path.abspath(__file__)))
REPO = os.environ.get('VP_RUN_REPO') or '/repo'
SCR = os.path.join(VERIF, 'build', 'regress_scratch' + os.environ.get('REGRESS_TAG', ''))

BY_FILE = {
    'ops.rs': ['C01', 'C02', 'C03', 'C04', 'C05', 'C06', 'C07', 'C10', 'C19'],
    'next.rs': ['C05', 'C02', 'C19'], 'misc.rs': ['C01', 'C02', 'C19'], 'ctors.rs': ['C01', 'C06', 'C07', 'C19'],
    'clone.rs': ['C10', 'C05', 'C01', 'C02', 'C03', 'C04', 'C06'], 'lib.rs': ['C03', 'C02'], 'label.rs': ['C03', 'C17'],
    'slice.rs': ['C13', 'C19'], 'merge.rs': ['C12', 'C11', 'C05'], 'xml.rs': ['C18'], 'dot.rs': ['C18'], 'hex.rs': ['C15', 'C16', 'C18'], 'debug.rs': ['C20'], 'inspect.rs': ['C20'],
}


def sh(cmd, cwd=None):
    p = subprocess.run(cmd, shell=True, cwd=cwd, capture_output=True, text=True)
    return p.returncode, p.stdout + p.stderr


def main():
    prefixes = sys.argv[1:]
    names = sorted(os.listdir(os.path.join(VERIF, 'seeded')))
    if prefixes:
        names = [n for n in names if any(n.startswith(p) for p in prefixes)]
    bad = 0
    for name in names:
        d = os.path.join(VERIF, 'seeded', name)
        patch = os.path.join(d, 'patch.diff')
        if not os.path.exists(patch):
            continue
        shutil.rmtree(SCR, ignore_errors=True)
        os.makedirs(SCR)
        shutil.copytree(os.path.join(REPO, 'src'), os.path.join(SCR, 'src'))
        shutil.copy(os.path.join(REPO, 'Cargo.lock'), SCR)
        shutil.copy(os.path.join(REPO, 'Cargo.toml'), SCR)
        rc, o = sh('patch -p1 --no-backup-if-mismatch < %s' % patch, SCR)
        if rc != 0:
            print('%-22s PATCH DOES NOT APPLY: %s' % (name, o.strip().split('\n')[-1][:120]))
            bad += 1
            continue
        files = re.findall(r'^\+\+\+ b/src/(\S+)', open(patch).read(), flags=re.M)
        harmless = name.startswith('harmless')
        meta = {}
        try:
            meta = json.load(open(os.path.join(d, 'meta.json')))
        except Exception:
            pass
        if harmless:
            props = sorted(set(p for f in files for p in BY_FILE.get(f, [])))
        else:
            props = [meta.get('property') or name.split('-')[0]]
        row, notes = [], []
        for p in props:
            rc, o = sh('./check %s --repo %s' % (p, SCR), VERIF)
            row.append('%s=%s' % (p, {0: 'ok', 1: 'VIOL', 2: 'undec'}.get(rc, rc)))
            if harmless and rc == 1:
                bad += 1
                notes.append('FALSE ALARM ' + '; '.join(l for l in o.split('\n') if l.startswith('failed obligation'))[:200])
            if harmless and rc == 2:
                notes.append('undecided: ' + '; '.join(l for l in o.split('\n') if l.startswith('UNDECIDED'))[:200])
            if not harmless and 'expected_exit' in meta:
                # a change whose verdict under its own property is recorded as something else than a report (outside the
                # documented preconditions, or a clause the check does not cover)
                if rc not in meta['expected_exit']:
                    bad += 1
                    notes.append('exit %s, recorded expectation %s' % (rc, meta['expected_exit']))
            elif not harmless and rc != 1:
                expected_undec = meta.get('detected_under_own_property') is False
                if rc == 0 or not expected_undec:
                    bad += 1
                    notes.append('NOT REPORTED (exit %s): ' % rc + '; '.join(l for l in o.split('\n') if l.startswith('UNDECIDED'))[:200])
        print('%-22s %s' % (name, ' '.join(row)))
        for n in notes:
            print('      ' + n)
        sys.stdout.flush()
    shutil.rmtree(SCR, ignore_errors=True)
    print('regress: %d problem(s)' % bad)
    sys.exit(1 if bad else 0)


if __name__ == '__main__':
    main()
