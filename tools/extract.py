#!/usr/bin/env python3
"""
extract.py - rebuild the verified text from /repo's working tree (DESIGN.md §3.1).

A *unit template* (units/<U>.rs.in) is ordinary Verus text with directives:

  //@include <path relative to /verif>
  //@extract const  <file> <NAME>
  //@extract type   <file> <Name> [derive=A,B,..]
  //@extract impl   <file> <header-regex> fns=a,b,c [consts=X,Y]
  //@extract implhdr-open <file> <header-regex>      (emits `impl.. {` only)
  //@extract fn     <file> <header-regex> <name>     (a single fn, no impl wrapper)

Function text is copied token by token from the source and only the mechanical
transformations T1..T7 are applied; spec text comes from the overlay
(specs/<U>.spec).  Every emitted token carries its origin, the provenance check
is run on every extraction, and a line map / obligation map is produced next to
the unit.
"""
import json
import os
import re
import sys

sys.path.insert(0, os.path.dirname(os.path.abspath(__file__)))
import rsscan  # noqa: E402
from rsscan import Tok, tokenize, render, next_sig, prev_sig, match_close, sig_texts  # noqa: E402

VERIF = os.path.dirname(os.path.dirname(os.path.abspath(__file__)))

DROP_ATTRS = ('inline', 'must_use', 'allow', 'doc', 'deny', 'warn')
LOG_MACROS = ('trace', 'debug')
DEFAULT_DERIVES = ('PartialEq', 'Eq', 'Clone', 'Copy')


# closure contracts that must NOT be attached in this extraction ("fn:method#k"): set by the caller when the contract does not
# even type-check against the changed closure (e.g. it returns another type now) - the closure is then left without a
# contract, and whatever rested on the contract becomes unprovable instead of the whole unit being refused
DROP_CLOSURE_SPECS = set()


class Unsupported(Exception):
    """Something the extractor does not know how to handle: exit 2, never an alarm."""


# --------------------------------------------------------------------------------------
# overlay
# --------------------------------------------------------------------------------------

class FnSpec:
    def __init__(self, file, impl_re, name):
        self.file, self.impl_re, self.name = file, impl_re, name
        self.tags = []
        self.ctags = None
        self.ret = 'r'
        self.sections = {}      # 'requires' / 'ensures' / 'body-start' / ('loop',k,'pre'|'spec')
        self.anchors = []       # (where, fragment, text, lineno)
        self.optional = set()   # section keys that may stay unused
        self.params = None      # parameter names the overlay was written against (a renamed parameter is mapped)
        self.used = False
        self.lineno = 0

    def key(self):
        return (self.file, self.impl_re, self.name)


def filter_variant(lines, variants):
    """`//#if X` / `//#ifnot X` / `//#endif` blocks (not nested); variants: set of active names."""
    out, keep, inside = [], True, False
    for ln in lines:
        st = ln.strip()
        m = re.fullmatch(r'//#(if|ifnot)\s+([A-Za-z0-9_\-]+)', st)
        if m:
            if inside:
                raise Unsupported('nested //#if')
            inside = True
            keep = (m.group(2) in variants) == (m.group(1) == 'if')
            out.append('')
        elif st == '//#endif':
            inside, keep = False, True
            out.append('')
        else:
            out.append(ln if keep else '')
    return out


def load_overlay(path, variants=frozenset()):
    specs = []
    cur, sec = None, None
    if not os.path.exists(path):
        return specs
    with open(path, encoding='utf-8') as f:
        lines = filter_variant(f.read().split('\n'), variants)
    buf = []

    def flush():
        nonlocal buf, sec
        if cur is not None and sec is not None:
            text = '\n'.join(buf).rstrip() + '\n'
            if sec[0] in ('before', 'after', 'after-stmt', 'before-stmt'):
                cur.anchors.append((sec[0], sec[1], text, sec[2]))
            else:
                if sec in cur.sections:
                    raise Unsupported('%s: duplicate section %r for %s' % (path, sec, cur.name))
                cur.sections[sec] = text
        buf, sec = [], None

    for no, ln in enumerate(lines, 1):
        if ln.startswith('=== fn '):
            flush()
            parts = ln[7:].split()
            if len(parts) < 3:
                raise Unsupported('%s:%d: bad fn header' % (path, no))
            cur = FnSpec(parts[0], parts[1], parts[2])
            cur.lineno = no
            for p in parts[3:]:
                if p.startswith('tags='):
                    cur.tags = [x for x in p[5:].split(',') if x]
                elif p.startswith('ret='):
                    cur.ret = p[4:]
                elif p.startswith('ctags='):
                    cur.ctags = [x for x in p[6:].split(',') if x]
                elif p.startswith('params='):
                    cur.params = [x for x in p[7:].split(',') if x]
                else:
                    raise Unsupported('%s:%d: unknown option %s' % (path, no, p))
            specs.append(cur)
        elif ln.startswith('--- '):
            flush()
            h = ln[4:].strip()
            m = re.fullmatch(r'(before-stmt|before|after-stmt|after)\s+<<(.*)>>(?:#(\d+))?', h)
            m2 = re.fullmatch(r'(loop|closure)\s+(\d+)\s+(outer|pre|spec|post|body-start|body-end)', h)
            m3 = re.fullmatch(r'closure\s+~<<(.*)>>\s+spec', h)
            m4 = re.fullmatch(r'closure\s+@([A-Za-z_][A-Za-z0-9_]*)#(\d+)(\??)\s+spec', h)
            if m4:
                # keyed by position: the closure that is the first argument of the k-th call of METHOD; with a trailing `?`
                # the call may be absent (the block is then unused), otherwise a missing call is a lost anchor
                sec = ('closure@', m4.group(1), int(m4.group(2)))
                if m4.group(3):
                    cur.optional.add(sec)
            elif m3:
                # keyed by content: applies to the closure whose body contains the token sequence; optional
                sec = ('closure~', m3.group(1), 'spec')
            elif m:
                # `<<frag>>#k`: the k-th occurrence of the fragment (without `#k` it must occur exactly once)
                sec = (m.group(1), m.group(2) + ('\x00%s' % m.group(3) if m.group(3) is not None else ''), no)
            elif m2:
                sec = (m2.group(1), int(m2.group(2)), m2.group(3))
            elif h in ('requires', 'ensures', 'decreases', 'body-start', 'body-end', 'tail-before'):
                sec = h
            else:
                raise Unsupported('%s:%d: unknown section %r' % (path, no, h))
        elif ln.startswith('=== '):
            raise Unsupported('%s:%d: unknown block %r' % (path, no, ln))
        else:
            if cur is None:
                if ln.strip() and not ln.lstrip().startswith('//'):
                    raise Unsupported('%s:%d: text outside a block' % (path, no))
                continue
            buf.append(ln)
    flush()
    return specs


def splice_toks(text, origin='T6'):
    return tokenize(text, None, origin)


def lit(text, origin):
    return tokenize(text, None, origin)


# --------------------------------------------------------------------------------------
# function extraction
# --------------------------------------------------------------------------------------

class FnOut:
    def __init__(self, qual, toks, dropped, src_file, src_line, spec):
        self.qual = qual
        self.toks = toks
        self.dropped = dropped      # list of (reason, text)
        self.src_file = src_file
        self.src_line = src_line
        self.spec = spec
        self.loops = 0


def _strip_lead(item, dropped):
    """T1: drop docs and the harmless outer attributes; refuse anything else."""
    for (a, b) in item.attrs():
        toks = item.toks[a:b]
        names = [t.text for t in toks if t.kind == 'ident']
        if not names or names[0] not in DROP_ATTRS + ('derive', 'cfg', 'serde'):
            raise Unsupported('attribute not understood: %s (line %s)' % (render(toks), toks[0].line))
        dropped.append(('T1', render(toks), []))


def _is_kw(tok, kw):
    return tok.kind == 'ident' and tok.text == kw


def _drop_logging(body, dropped):
    """T2: drop `trace!(..);` / `debug!(..);` statements and a directly preceding #[cfg(debug_assertions)]."""
    out = []
    i, n = 0, len(body)
    while i < n:
        t = body[i]
        if t.kind == 'ident' and t.text in LOG_MACROS:
            j = next_sig(body, i + 1)
            if j < n and body[j].text == '!':
                k = next_sig(body, j + 1)
                if k < n and body[k].text in ('(', '[', '{'):
                    e = match_close(body, k)
                    s = next_sig(body, e + 1)
                    if s < n and body[s].text == ';':
                        # statement position? previous significant token must end a statement / open a block
                        p = len(out) - 1
                        while p >= 0 and not out[p].sig():
                            p -= 1
                        # optional preceding #[cfg(debug_assertions)]
                        if p >= 0 and out[p].text == ']':
                            q = p
                            depth = 0
                            while q >= 0:
                                if out[q].kind == 'punct' and out[q].text == ']':
                                    depth += 1
                                elif out[q].kind == 'punct' and out[q].text == '[':
                                    depth -= 1
                                    if depth == 0:
                                        break
                                q -= 1
                            h = prev_sig(out, q - 1)
                            attr = ''.join(sig_texts(out[h:p + 1]))
                            if h >= 0 and out[h].text == '#' and attr == '#[cfg(debug_assertions)]':
                                dropped.append(('T2', render(out[h:p + 1]), list(out[h:p + 1])))
                                del out[h:]
                                p = len(out) - 1
                                while p >= 0 and not out[p].sig():
                                    p -= 1
                        if p >= 0 and out[p].text not in (';', '{', '}'):
                            raise Unsupported('logging macro in expression position (line %s)' % t.line)
                        dropped.append(('T2', render(body[i:s + 1]), list(body[i:s + 1])))
                        i = s + 1
                        continue
        out.append(t)
        i += 1
    return out


OPAQUE_MACROS = {'format': '__fmt_opaque', 'anyhow': 'anyhow', 'panic': '__panic'}


def _format_captures(lit):
    """the placeholders of a format string literal in the order in which they occur: an identifier for a variable the
    literal captures implicitly (`{v}`, `{v:02X}`; only its first occurrence counts), None for a positional `{}` /
    `{:02X}`; returns None if the literal uses something this scanner does not understand (positional indices, width
    args, ...)"""
    if not (lit.startswith('"') and lit.endswith('"')):
        return None
    body = lit[1:-1]
    slots, i, n = [], 0, len(body)
    while i < n:
        c = body[i]
        if c == '{':
            if i + 1 < n and body[i + 1] == '{':
                i += 2
                continue
            j = body.find('}', i)
            if j < 0:
                return None
            inner = body[i + 1:j]
            name = inner.split(':', 1)[0].strip()
            if name == '':
                slots.append(None)
            elif re.fullmatch(r'[A-Za-z_][A-Za-z0-9_]*', name):
                if name not in slots:
                    slots.append(name)
            else:
                return None
            if '$' in inner or '*' in inner:
                return None
            i = j + 1
            continue
        if c == '}':
            if i + 1 < n and body[i + 1] == '}':
                i += 2
                continue
            return None
        i += 1
    return slots


def _opaque_messages(body, dropped):
    """T9: the TEXT of a message is not modelled.
    `anyhow!(..)` becomes a call of the opaque error constructor `anyhow()`; its arguments are dropped.
    `format!("lit", a, b)` becomes `__fmtK("lit", ..)`: an opaque function of the literal, of the variables the literal
    captures implicitly (`{v}`) and of the explicit arguments, in the order of their placeholders in the literal, all
    passed by reference as format! does; its result is the uninterpreted `fmt_text(literal, [display text of each argument])`. A format! whose literal
    this scanner does not understand falls back to `__fmt_opaque()` with the arguments dropped."""
    out = []
    i, n = 0, len(body)
    while i < n:
        t = body[i]
        if t.kind == 'ident' and t.text in OPAQUE_MACROS and t.origin == 'orig':
            j = next_sig(body, i + 1)
            pv = prev_sig(body, i - 1)
            if j < n and body[j].text == '!' and not (pv >= 0 and body[pv].text in ('.', '::')):
                k = next_sig(body, j + 1)
                if k < n and body[k].text == '(':
                    e = match_close(body, k)
                    inner = body[k + 1:e]
                    done = False
                    if t.text == 'format':
                        # split at top-level commas
                        parts, cur, commas, x = [], [], [], 0
                        while x < len(inner):
                            y = inner[x]
                            if y.kind == 'punct' and y.text in rsscan.OPEN:
                                z = match_close(inner, x)
                                cur += inner[x:z + 1]
                                x = z + 1
                                continue
                            if y.kind == 'punct' and y.text == ',':
                                parts.append(cur)
                                commas.append(y)
                                cur = []
                            else:
                                cur.append(y)
                            x += 1
                        if [y for y in cur if y.sig()]:
                            parts.append(cur)
                        lit0 = [y for y in parts[0] if y.sig()] if parts else []
                        named = any(any(y.kind == 'punct' and y.text == '=' for y in p if y.sig()) for p in parts[1:])
                        slots = _format_captures(lit0[0].text) if len(lit0) == 1 and lit0[0].kind == 'str' else None
                        if (slots is not None and not named and len(slots) <= 6
                                and sum(1 for c in slots if c is None) == len(parts) - 1):
                            # the arguments in the order in which the literal shows them: captured variables and
                            # explicit (positional) arguments interleaved as their placeholders are
                            args = [_opaque_messages(_trim(p), dropped) for p in parts[1:]]
                            dropped.append(('T9', 'format! -> __fmt%d' % len(slots), [t, body[j], body[k], body[e]] + commas))
                            out += lit('__fmt%d(' % len(slots), 'T9') + [lit0[0]]
                            ai = 0
                            for c in slots:
                                if c is None:
                                    out += lit(', &(', 'T9') + args[ai] + lit(')', 'T9')
                                    ai += 1
                                else:
                                    out += lit(', &%s' % c, 'T9')
                            out += lit(')', 'T9')
                            done = True
                    if not done:
                        dropped.append(('T9', render(body[i:e + 1]), list(body[i:e + 1])))
                        out += lit('%s()' % OPAQUE_MACROS[t.text], 'T9')
                    i = e + 1
                    continue
        out.append(t)
        i += 1
    return out


def _operator_calls(body, dropped):
    """T10: `let .. = &E1 - &E2;` becomes `let .. = core::ops::Sub::sub(&E1, &E2);` - the trait-method call the
    binary operator stands for by definition (Verus' front end cannot resolve the operator on references to a
    user type, it can resolve the call). Only this exact shape is rewritten: a let initialiser with exactly one
    top-level `-`, both operands starting with `&`."""
    out = []
    i, n = 0, len(body)
    while i < n:
        t = body[i]
        if t.origin == 'orig' and t.kind == 'ident' and t.text == 'let':
            # find `=` and `;` of this statement at depth 0
            j, eq, end, depth = i + 1, None, None, 0
            while j < n:
                x = body[j]
                if x.kind == 'punct' and x.text in rsscan.OPEN:
                    j = match_close(body, j)
                elif x.kind == 'punct' and x.text == '=' and eq is None:
                    eq = j
                elif x.kind == 'punct' and x.text == ';':
                    end = j
                    break
                elif x.kind == 'punct' and x.text in rsscan.CLOSE:
                    break
                j += 1
            if eq is not None and end is not None:
                init = body[eq + 1:end]
                minus, k = [], 0
                while k < len(init):
                    x = init[k]
                    if x.kind == 'punct' and x.text in rsscan.OPEN:
                        k = match_close(init, k)
                    elif x.kind == 'punct' and x.text == '-':
                        minus.append(k)
                    k += 1
                f = next_sig(init, 0)
                if len(minus) == 1 and f < len(init) and init[f].text == '&':
                    m = minus[0]
                    r0 = next_sig(init, m + 1)
                    if r0 < len(init) and init[r0].text == '&' and [x for x in init[:m] if x.sig()]:
                        dropped.append(('T10', '-', [init[m]]))
                        out += body[i:eq + 1]
                        out += lit(' core::ops::Sub::sub(', 'T10') + _trim(init[:m]) + lit(', ', 'T10') + _trim(init[m + 1:]) + lit(')', 'T10')
                        i = end
                        continue
        out.append(t)
        i += 1
    return out


def _wrap_methods(body, wraps, dropped):
    """T13: a call `RECV.m(..)` of a std method m named by the unit (`wrap=m,..` on the //@extract line) becomes
    `RECV.__w_m(..)`: a method of a wrapper trait declared in the unit, implemented (external_body, with a trusted contract)
    for exactly the std receiver types the unit lists, whose body is the std call itself. Used where this vstd gives the
    std method a specification that is too weak to carry the property (str::len, Iterator::filter on a slice iterator) or
    cannot take one (the provided method Iterator::enumerate); a second assume_specification would be rejected. Method
    resolution (auto-ref, receiver type) is left to rustc: a receiver of another type does not compile (exit 2)."""
    if not wraps:
        return body
    out = []
    n = len(body)
    for i, t in enumerate(body):
        if t.kind == 'ident' and t.origin == 'orig' and t.text in wraps:
            pv = prev_sig(body, i - 1)
            nx = next_sig(body, i + 1)
            if pv >= 0 and body[pv].text == '.' and nx < n and body[nx].text == '(':
                dropped.append(('T13', 'method .%s( -> .__w_%s(' % (t.text, t.text), [t]))
                out += lit('__w_%s' % t.text, 'T13')
                continue
        out.append(t)
    return out


class LoopCounter:
    def __init__(self):
        self.n = 0


def _find_for_each(body):
    """T12 candidates: statements of the shape `RECV.for_each(|PAT| BODY);` in this token list (not inside nested
    groups - those are found when the nested group is processed). start index -> description"""
    n = len(body)
    depth, d, stack = [0] * n, 0, []
    for i, t in enumerate(body):
        if t.kind == 'punct' and t.text in rsscan.OPEN:
            depth[i] = d
            stack.append(i)
            d += 1
        elif t.kind == 'punct' and t.text in rsscan.CLOSE:
            d -= 1
            depth[i] = d
            if stack:
                stack.pop()
        else:
            depth[i] = d
    found = {}
    for i, t in enumerate(body):
        if not (t.kind == 'ident' and t.text == 'for_each' and t.origin == 'orig'):
            continue
        pv = prev_sig(body, i - 1)
        op = next_sig(body, i + 1)
        if pv < 0 or body[pv].text != '.' or op >= n or body[op].text != '(':
            continue
        cl = match_close(body, op)
        semi = next_sig(body, cl + 1)
        if semi >= n or body[semi].text != ';':
            continue
        a = next_sig(body, op + 1)
        if a >= cl or body[a].text != '|':
            continue
        b = a + 1
        while b < cl and not (body[b].kind == 'punct' and body[b].text == '|'):
            b += 1
        if b >= cl:
            continue
        # statement start: after the previous `;` / `}` at this depth, or at the start of the list
        st = 0
        j = pv - 1
        dd = depth[pv]
        while j >= 0:
            x = body[j]
            if x.kind == 'punct' and ((depth[j] == dd and x.text in (';', '}')) or (depth[j] == dd - 1 and x.text == '{')):
                st = j + 1
                break
            j -= 1
        st = next_sig(body, st)
        found[st] = dict(dot=pv, name=i, open=op, close=cl, semi=semi, bar1=a, bar2=b)
    return found


def _desugar(body, spec, ctr, dropped, used):
    """T3 for `for` loops; loop-spec splices for for/while/loop. Pre-order loop ordinals."""
    out = []
    i, n = 0, len(body)
    fes = _find_for_each(body)
    while i < n:
        t = body[i]
        if i in fes:
            # T12: `RECV.for_each(|PAT| BODY);` is `for PAT in RECV { BODY }` (the definition of Iterator::for_each: the
            # closure is called on every item in iteration order), emitted directly in the T3 loop form. A closure that
            # captures `&mut` state (which Verus does not have) becomes an ordinary loop body. A receiver `X.iter()`
            # whose X is a temporary is bound first so that it lives as long as the statement does.
            fe = fes[i]
            k = ctr.n
            ctr.n += 1
            if hasattr(ctr, 'pats'):
                ctr.pats[k] = [x.text for x in body[fe['bar1'] + 1:fe['bar2']] if x.kind == 'ident' and x.text not in ('mut', 'ref', '_')]
            sec = lambda nm: (spec.sections.get(('loop', k, nm)) if spec else None)
            for nm in ('pre', 'spec', 'post', 'outer', 'body-start', 'body-end'):
                if sec(nm) is not None:
                    used.add(('loop', k, nm))
            if sec('outer') is not None:
                out += splice_toks(sec('outer'))
            recv = body[i:fe['dot']]
            pat = body[fe['bar1'] + 1:fe['bar2']]
            cb = _trim(body[fe['bar2'] + 1:fe['close']])
            if hasattr(ctr, 'lits'):
                ctr.lits[k] = [x.text for x in cb if x.kind == 'str']
            dropped.append(('T12', 'for_each', [body[fe['dot']], body[fe['name']], body[fe['open']], body[fe['bar1']],
                                                body[fe['bar2']], body[fe['close']], body[fe['semi']]]))
            it = '__it%d' % k
            rs = [x for x in recv if x.sig()]
            tmp = None
            if hasattr(ctr, 'recvs') and len(rs) >= 5 and [x.text for x in rs[-4:]] == ['.', 'iter', '(', ')']:
                # `$feach<K>`: what `X.iter().for_each(..)` iterates over: the temporary T12 binds, or X itself when it is a path
                ctr.recvs[k] = ('__fe%d' % k) if any(x.text == '(' for x in rs[:-4]) else ''.join(x.text for x in rs[:-4])
            if len(rs) >= 4 and rs[-1].text == ')' and rs[-2].text == '(' and rs[-3].text == 'iter' and rs[-4].text == '.' \
                    and any(x.text == '(' for x in rs[:-4]):
                # RECV = X.iter() with a call inside X: bind the temporary
                cut = max(ix for ix, x in enumerate(recv) if x is rs[-4])
                tmp = '__fe%d' % k
                out += lit('{ let %s = ' % tmp, 'T12') + _trim(_desugar(recv[:cut], spec, ctr, dropped, used)) + lit(';\n', 'T12')
                out += lit('{ let mut %s = IntoIterator::into_iter(%s' % (it, tmp), 'T12') + recv[cut:]
            else:
                out += lit('{ let mut %s = IntoIterator::into_iter(' % it, 'T12')
                out += _trim(_desugar(recv, spec, ctr, dropped, used))
            out += lit(');\n', 'T12')
            if sec('pre') is not None:
                out += splice_toks(sec('pre'))
            out += lit('loop\n', 'T12')
            if sec('spec') is not None:
                out += splice_toks(sec('spec'))
            out += lit('{ match %s.next() { Some(' % it, 'T12') + _trim(pat) + lit(') => ', 'T12')
            is_block = cb and cb[0].kind == 'punct' and cb[0].text == '{' and match_close(cb, 0) == len(cb) - 1
            if is_block:
                out.append(cb[0])
                if sec('body-start') is not None:
                    out += splice_toks('\n' + sec('body-start'))
                out += _desugar(cb[1:-1], spec, ctr, dropped, used)
                if sec('body-end') is not None:
                    out += splice_toks('\n' + sec('body-end'))
                out.append(cb[-1])
            else:
                out += lit('{', 'T12')
                if sec('body-start') is not None:
                    out += splice_toks('\n' + sec('body-start'))
                out += _desugar(cb, spec, ctr, dropped, used) + lit(';', 'T12')
                if sec('body-end') is not None:
                    out += splice_toks('\n' + sec('body-end'))
                out += lit('}', 'T12')
            out += lit(', None => { break; } } }', 'T12')
            if sec('post') is not None:
                out += splice_toks('\n' + sec('post'))
            out += lit(' }', 'T12')
            if tmp is not None:
                out += lit(' }', 'T12')
            i = fe['semi'] + 1
            continue
        if t.origin == 'orig' and t.kind == 'ident' and t.text in ('for', 'while', 'loop'):
            nx = next_sig(body, i + 1)
            pv = prev_sig(body, i - 1)
            if t.text == 'for' and nx < n and body[nx].text == '<':
                out.append(t)
                i += 1
                continue
            if pv >= 0 and body[pv].text in ('.', '::'):
                out.append(t)
                i += 1
                continue
            k = ctr.n
            ctr.n += 1
            pre = spec.sections.get(('loop', k, 'pre')) if spec else None
            lsp = spec.sections.get(('loop', k, 'spec')) if spec else None
            lpost = spec.sections.get(('loop', k, 'post')) if spec else None
            louter = spec.sections.get(('loop', k, 'outer')) if spec else None
            lbs = spec.sections.get(('loop', k, 'body-start')) if spec else None
            lbe = spec.sections.get(('loop', k, 'body-end')) if spec else None
            if lbs is not None:
                used.add(('loop', k, 'body-start'))
            if lbe is not None:
                used.add(('loop', k, 'body-end'))
            if louter is not None:
                used.add(('loop', k, 'outer'))
                out += splice_toks(louter)
            if lpost is not None:
                used.add(('loop', k, 'post'))
            if pre is not None:
                used.add(('loop', k, 'pre'))
            if lsp is not None:
                used.add(('loop', k, 'spec'))
            if t.text == 'for':
                # pattern up to `in` at depth 0
                j = i + 1
                while j < n:
                    if body[j].kind == 'punct' and body[j].text in rsscan.OPEN:
                        j = match_close(body, j)
                    elif _is_kw(body[j], 'in'):
                        break
                    j += 1
                if j >= n:
                    raise Unsupported('for without in (line %s)' % t.line)
                pat = body[i + 1:j]
                if hasattr(ctr, 'pats'):
                    ctr.pats[k] = [x.text for x in pat if x.kind == 'ident' and x.text not in ('mut', 'ref', '_')]
                e = j + 1
                while e < n:
                    if body[e].kind == 'punct' and body[e].text in ('(', '['):
                        e = match_close(body, e)
                    elif body[e].kind == 'punct' and body[e].text == '{':
                        break
                    e += 1
                if e >= n:
                    raise Unsupported('for without block (line %s)' % t.line)
                expr = body[j + 1:e]
                close = match_close(body, e)
                inner = body[e + 1:close]
                if hasattr(ctr, 'lits'):
                    ctr.lits[k] = [x.text for x in inner if x.kind == 'str']
                dropped.append(('T3', 'for', [t]))
                dropped.append(('T3', 'in', [body[j]]))
                dropped.append(('T3swap', 'pattern/iterator-expression order', [],
                                [x for x in pat if x.sig()], [x for x in expr if x.sig()]))
                it = '__it%d' % k
                out += lit('{ let mut %s = IntoIterator::into_iter(' % it, 'T3')
                out += _trim(_desugar(expr, spec, ctr, dropped, used))
                out += lit(');\n', 'T3')
                if pre is not None:
                    out += splice_toks(pre)
                out += lit('loop\n', 'T3')
                if lsp is not None:
                    out += splice_toks(lsp)
                out += lit('{ match %s.next() { Some(' % it, 'T3')
                # reference patterns (`for (&a, &to) in ..`): Verus has none. `&x` in the pattern binds x to a copy of what
                # the reference points to: x is bound to the reference instead and `let x = *x;` opens the body (T3)
                pat2, derefs, pi = [], [], 0
                ptoks = _trim(pat)
                while pi < len(ptoks):
                    x = ptoks[pi]
                    nxp = next_sig(ptoks, pi + 1)
                    if x.kind == 'punct' and x.text == '&' and nxp < len(ptoks) and ptoks[nxp].kind == 'ident' \
                            and ptoks[nxp].text not in ('mut', 'ref'):
                        # the binder keeps its place in the pattern (now bound to the reference) and is shadowed by the copy
                        dropped.append(('T3', '& in a for pattern', [x]))
                        derefs.append(ptoks[nxp].text)
                        pi += 1
                        continue
                    pat2.append(x)
                    pi += 1
                out += pat2
                out += lit(') => ', 'T3')
                out.append(body[e])
                for nm in derefs:
                    out += lit('\nlet %s = *%s;' % (nm, nm), 'T3')
                if lbs is not None:
                    out += splice_toks('\n' + lbs)
                out += _desugar(inner, spec, ctr, dropped, used)
                if lbe is not None:
                    out += splice_toks('\n' + lbe)
                out.append(body[close])
                out += lit(', None => { break; } } }', 'T3')
                if lpost is not None:
                    out += splice_toks('\n' + lpost)
                out += lit(' }', 'T3')
                i = close + 1
                continue
            # while / loop: only splice
            e = i + 1
            while e < n:
                if body[e].kind == 'punct' and body[e].text in ('(', '['):
                    e = match_close(body, e)
                elif body[e].kind == 'punct' and body[e].text == '{':
                    break
                e += 1
            if e >= n:
                raise Unsupported('%s without block (line %s)' % (t.text, t.line))
            close = match_close(body, e)
            if hasattr(ctr, 'lits'):
                ctr.lits[k] = [x.text for x in body[e + 1:close] if x.kind == 'str']
            if pre is not None:
                out += splice_toks(pre)
            out.append(t)
            out += _desugar(body[i + 1:e], spec, ctr, dropped, used)
            if lsp is not None:
                out += lit('\n', 'T6') + splice_toks(lsp)
            out.append(body[e])
            if lbs is not None:
                out += splice_toks('\n' + lbs)
            out += _desugar(body[e + 1:close], spec, ctr, dropped, used)
            if lbe is not None:
                out += splice_toks('\n' + lbe)
            out.append(body[close])
            if lpost is not None:
                out += splice_toks('\n' + lpost)
            i = close + 1
            continue
        out.append(t)
        i += 1
    return out


EXPR_START = ('(', ',', '=', '{', ';', '=>', '[', 'return', 'move', '&&', '||', '!', '+=', ':')


def _closures(body, spec, ctr, dropped, used):
    """T8: a closure whose parameter is a pattern (`|(v, vtx)| e`, `|(v, _)| e`) is rewritten to
    `|__pK| SPEC { let (v, vtx) = __pK; e }` - the binding a closure parameter pattern stands for. A closure with
    plain identifier parameters is only wrapped in a block when the overlay has a spec for it. Pre-order ordinals."""
    out = []
    i, n = 0, len(body)
    while i < n:
        t = body[i]
        if t.origin == 'orig' and t.kind == 'punct' and t.text == '|':
            pv = prev_sig(body, i - 1)
            if pv < 0 or body[pv].text in EXPR_START:
                # parameters up to the closing '|'
                j = i + 1
                while j < n:
                    if body[j].kind == 'punct' and body[j].text in rsscan.OPEN:
                        j = match_close(body, j)
                    elif body[j].kind == 'punct' and body[j].text == '|':
                        break
                    j += 1
                if j >= n:
                    raise Unsupported('closure without closing | (line %s)' % t.line)
                params = body[i + 1:j]
                b0 = next_sig(body, j + 1)
                if b0 < n and body[b0].text == '->':
                    raise Unsupported('closure with explicit return type (line %s)' % t.line)
                if b0 < n and body[b0].text == '{':
                    e = match_close(body, b0) + 1
                else:
                    e = b0
                    while e < n:
                        x = body[e]
                        if x.kind == 'punct' and x.text in rsscan.OPEN:
                            e = match_close(body, e)
                        elif x.kind == 'punct' and x.text in (',', ')', ']', '}', ';'):
                            break
                        e += 1
                cbody = body[j + 1:e]
                k = ctr.n
                ctr.n += 1
                csp = spec.sections.get(('closure', k, 'spec')) if spec else None
                if csp is not None:
                    used.add(('closure', k, 'spec'))
                elif spec:
                    # by position: argument of the n-th call of a method
                    # the call this closure is an argument of: the innermost unmatched `(` before it
                    op, depth = None, 0
                    for q in range(i - 1, -1, -1):
                        tq = body[q]
                        if tq.kind != 'punct':
                            continue
                        if tq.text in (')', ']', '}'):
                            depth += 1
                        elif tq.text in ('(', '[', '{'):
                            if depth == 0:
                                op = q if tq.text == '(' else None
                                break
                            depth -= 1
                        elif tq.text == ';' and depth == 0:
                            break
                    if op is not None:
                        mi = prev_sig(body, op - 1)
                        if mi >= 0 and body[mi].kind == 'ident':
                            meth = body[mi].text
                            nth = ctr.__dict__.setdefault('meth', {}).get(meth, 0)
                            ctr.meth[meth] = nth + 1
                            key = ('closure@', meth, nth)
                            if key in spec.sections:
                                p0 = [x for x in params if x.sig()]
                                # a plain identifier, with or without a type annotation (`c`, `c: &&char`), is named as it is
                                plain = p0 and p0[0].kind == 'ident' and p0[0].text not in ('mut', 'ref') and \
                                    (len(p0) == 1 or (p0[1].text == ':' and not any(x.text == ',' for x in p0)))
                                pname = p0[0].text if plain else '__p%d' % k
                                cid = '%s:%s#%d' % (spec.name, meth, nth)
                                used.add(key)
                                if cid not in DROP_CLOSURE_SPECS:
                                    csp = '/*cs=%s*/ ' % cid + spec.sections[key].replace('$cp', pname)
                    ctexts = [x.text for x in cbody if x.sig()]
                    for key in (spec.sections if csp is None else ()):
                        if isinstance(key, tuple) and key[0] == 'closure~':
                            frag = [x.text for x in tokenize(key[1]) if x.sig()]
                            if any(ctexts[a:a + len(frag)] == frag for a in range(0, len(ctexts) - len(frag) + 1)):
                                # the parameter is always called __pK in a content-keyed spec
                                csp = spec.sections[key].replace('__p?', '__p%d' % k)
                                used.add(key)
                                break
                # split parameters at top-level commas
                plist, cur, depth, commas = [], [], 0, []
                for x in params:
                    if x.kind == 'punct' and x.text in ('(', '[', '{', '<'):
                        depth += 1
                    elif x.kind == 'punct' and x.text in (')', ']', '}', '>'):
                        depth -= 1
                    if x.kind == 'punct' and x.text == ',' and depth == 0:
                        plist.append(cur)
                        cur = []
                        commas.append(x)
                    else:
                        cur.append(x)
                if [x for x in cur if x.sig()]:
                    plist.append(cur)
                def simple(p):
                    sg = [x for x in p if x.sig()]
                    if sg and sg[0].text == 'mut':
                        sg = sg[1:]
                    return len(sg) >= 1 and sg[0].kind == 'ident' and (len(sg) == 1 or sg[1].text == ':')
                # a wildcard parameter `_` gets a fresh name (Verus accepts only named closure parameters)
                for pi, p in enumerate(plist):
                    sg = [x for x in p if x.sig()]
                    if sg and sg[0].kind == 'ident' and sg[0].text == '_' and (len(sg) == 1 or sg[1].text == ':'):
                        ix = [xi for xi, x in enumerate(p) if x is sg[0]][0]
                        dropped.append(('T8', '_', [sg[0]]))
                        p[ix:ix + 1] = lit('__u%d_%d' % (k, pi), 'T8')
                        params = None
                if all(simple(p) for p in plist) and csp is None:
                    out.append(t)
                    if params is None:
                        for pi, p in enumerate(plist):
                            if pi:
                                out += lit(', ', 'T8')
                            out += _trim(p)
                        # the commas between the original parameters are re-emitted by the template
                        dropped.append(('T8', ',', commas))
                    else:
                        out += params
                    out.append(body[j])
                    out += _closures(cbody, spec, ctr, dropped, used)
                    i = e
                    continue
                # rewritten form; the original closing '|' is replaced by a template one (keeps source order)
                dropped.append(('T8', '|', [body[j]]))
                if commas:
                    dropped.append(('T8', ',', commas))
                out.append(t)
                lets = []
                first = True
                for pi, p in enumerate(plist):
                    if not first:
                        out += lit(', ', 'T8')
                    first = False
                    if simple(p):
                        out += _trim(p)
                    else:
                        nm = '__p%d' % k if len(plist) == 1 else '__p%d_%d' % (k, pi)
                        # a type annotation after the pattern stays with the parameter
                        depth, colon = 0, None
                        for xi, x in enumerate(p):
                            if x.kind == 'punct' and x.text in ('(', '[', '{'):
                                depth += 1
                            elif x.kind == 'punct' and x.text in (')', ']', '}'):
                                depth -= 1
                            elif x.kind == 'punct' and x.text == ':' and depth == 0:
                                colon = xi
                                break
                        pat = p if colon is None else p[:colon]
                        out += lit(nm, 'T8')
                        if colon is not None:
                            out += p[colon:]
                        lets.append((pat, nm))
                out += lit('| ', 'T8')
                if csp is not None:
                    out += splice_toks(csp.rstrip() + ' ')
                out += lit('{ ', 'T8')
                for (pat, nm) in lets:
                    out += lit('let ', 'T8') + _trim(pat) + lit(' = %s; ' % nm, 'T8')
                out += _closures(cbody, spec, ctr, dropped, used)
                out += lit(' }', 'T8')
                i = e
                continue
        out.append(t)
        i += 1
    return out


def _trim(toks):
    a, b = 0, len(toks)
    while a < b and toks[a].kind == 'ws':
        a += 1
    while b > a and toks[b - 1].kind == 'ws':
        b -= 1
    return toks[a:b]


def _apply_anchor(toks, where, fragment, text, fname):
    """Splice `text` before / after the token sequence `fragment` (which must match exactly once), or after the end of
    the statement that contains it (`after-stmt`: the next `;` at the same bracket depth). `A>> | <<B` gives
    alternatives, tried in order: the first one that matches exactly once is used."""
    ordinal = None
    if '\x00' in fragment:
        fragment, o = fragment.split('\x00', 1)
        ordinal = int(o)
    alts = [a.strip() for a in fragment.split('>> | <<')]
    idx = [i for i, t in enumerate(toks) if t.sig() and t.origin in ('orig', 'T3', 'T8', 'T9', 'T12')]
    texts = [toks[i].text for i in idx]
    chosen = None
    counts = []
    for alt in alts:
        frag = [t.text for t in tokenize(alt) if t.sig()]
        if not frag:
            raise Unsupported('%s: empty anchor fragment' % fname)
        hits = [s for s in range(0, len(texts) - len(frag) + 1) if texts[s:s + len(frag)] == frag]
        counts.append(len(hits))
        if ordinal is not None and len(hits) > ordinal:
            chosen = (hits[ordinal], frag)
            break
        if ordinal is None and len(hits) == 1:
            chosen = (hits[0], frag)
            break
    if chosen is None:
        raise Unsupported('%s: anchor <<%s>> matches %s times (must be exactly 1)' % (fname, fragment, counts))
    s, frag = chosen
    sp = splice_toks('\n' + text)
    if where == 'before':
        pos = idx[s]
    elif where == 'after':
        pos = idx[s + len(frag) - 1] + 1
    elif where == 'before-stmt':
        # start of the enclosing statement: after the previous `;` / `}` at the same bracket depth, or after the `{` that
        # opens the enclosing block
        depth, pos = 0, 0
        for j in range(idx[s] - 1, -1, -1):
            t = toks[j]
            if t.kind != 'punct':
                continue
            if t.text in rsscan.CLOSE:
                if depth == 0 and t.text == '}':
                    pos = j + 1
                    break
                depth += 1
            elif t.text in rsscan.OPEN:
                if depth == 0:
                    pos = j + 1
                    break
                depth -= 1
            elif t.text == ';' and depth == 0:
                pos = j + 1
                break
    else:
        # end of the enclosing statement: first `;` at depth 0 counted from the start of the fragment
        depth, pos = 0, None
        for j in range(idx[s], len(toks)):
            t = toks[j]
            if t.kind == 'punct' and t.text in rsscan.OPEN:
                depth += 1
            elif t.kind == 'punct' and t.text in rsscan.CLOSE:
                depth -= 1
                if depth < 0:
                    break
            elif t.kind == 'punct' and t.text == ';' and depth == 0:
                pos = j + 1
                break
        if pos is None:
            raise Unsupported('%s: anchor <<%s>>: no statement end found' % (fname, fragment))
    return toks[:pos] + sp + toks[pos:]


def _collect_lets(body):
    """(name, [significant token texts of the initialiser]) for every `let [mut] NAME [: T] = INIT;` in source order."""
    lets = []
    i, n = 0, len(body)
    while i < n:
        t = body[i]
        if t.kind == 'ident' and t.text == 'let' and t.origin == 'orig':
            j = next_sig(body, i + 1)
            if j < n and body[j].text == 'mut':
                j = next_sig(body, j + 1)
            if j < n and body[j].kind == 'ident':
                name = body[j].text
                k, eq, end = j + 1, None, None
                while k < n:
                    x = body[k]
                    if x.kind == 'punct' and x.text in rsscan.OPEN:
                        k = match_close(body, k)
                    elif x.kind == 'punct' and x.text == '=' and eq is None:
                        eq = k
                    elif x.kind == 'punct' and x.text == ';':
                        end = k
                        break
                    elif x.kind == 'punct' and x.text in rsscan.CLOSE:
                        break
                    k += 1
                if eq is not None and end is not None:
                    init = [x.text for x in body[eq + 1:end] if x.sig()]
                    # a turbofish (`HashSet::<usize>::new()`) does not hide the path from a placeholder written without it
                    bare, q = [], 0
                    while q < len(init):
                        if init[q] == '::' and q + 1 < len(init) and init[q + 1] == '<':
                            d2, q2 = 0, q + 1
                            while q2 < len(init):
                                if init[q2] == '<':
                                    d2 += 1
                                elif init[q2] == '>':
                                    d2 -= 1
                                    if d2 == 0:
                                        break
                                q2 += 1
                            q = q2 + 1
                            continue
                        bare.append(init[q])
                        q += 1
                    lets.append((name, init if bare == init else init + ['\x00'] + bare))
        i += 1
    return lets


class LetList(list):
    pass


def _collect_for_patterns(body):
    """loop ordinal (pre-order over for/while/loop and for_each statements, exactly as _desugar numbers them: found by
    a dry run of it) -> identifiers of the loop pattern, in order. `$for<K>#i` in overlay text stands for the i-th."""
    ctr = LoopCounter()
    ctr.pats = {}
    ctr.lits = {}
    ctr.recvs = {}
    _desugar(list(body), None, ctr, [], set())
    _collect_for_patterns.lits = ctr.lits
    _collect_for_patterns.recvs = ctr.recvs
    return ctr.pats


def _subst_placeholders(text, lets, fname):
    """`$let<TOKENS>#K` in overlay text stands for the name bound by the K-th `let` whose initialiser contains the
    token sequence TOKENS - so that the overlay survives a renamed local."""
    def rep(m):
        frag = [t.text for t in tokenize(m.group(1)) if t.sig()]
        k = int(m.group(2))
        hits = [nm for (nm, init) in lets
                if any(init[a:a + len(frag)] == frag for a in range(0, len(init) - len(frag) + 1))]
        if k >= len(hits):
            raise Unsupported('%s: placeholder %s: only %d matching let statements' % (fname, m.group(0), len(hits)))
        return hits[k]
    # innermost first, so that placeholders nest: $let<$let<HashMap::new>#0.len()>#0
    for _round in range(6):
        t2 = re.sub(r'\$let<([^<>$]+)>#(\d+)', rep, text)
        if t2 == text:
            break
        text = t2
    if '$let<' in text:
        raise Unsupported('%s: unresolved $let placeholder' % fname)

    def reprecv(m):
        # $recv<TOKENS>#k : the identifier directly in front of the k-th occurrence of TOKENS in the body
        frag = [t.text for t in tokenize(m.group(1)) if t.sig()]
        k = int(m.group(2))
        body = lets.bodytexts
        hits = [body[a - 1] for a in range(1, len(body) - len(frag) + 1)
                if body[a:a + len(frag)] == frag and re.fullmatch(r'[A-Za-z_]\w*', body[a - 1])]
        if k >= len(hits):
            raise Unsupported('%s: placeholder %s: only %d occurrences' % (fname, m.group(0), len(hits)))
        return hits[k]
    text = re.sub(r'\$recv<([^<>$]+)>#(\d+)', reprecv, text)

    def repx(m):
        # $letx<TOKENS;NAME>#k : like $let, skipping the local called NAME
        frag = [t.text for t in tokenize(m.group(1)) if t.sig()]
        k = int(m.group(3))
        hits = [nm for (nm, init) in lets
                if nm != m.group(2).strip() and any(init[a:a + len(frag)] == frag for a in range(0, len(init) - len(frag) + 1))]
        if k >= len(hits):
            raise Unsupported('%s: placeholder %s: only %d matching let statements' % (fname, m.group(0), len(hits)))
        return hits[k]
    text = re.sub(r'\$letx<([^<>$;]+);([^<>$;]+)>#(\d+)', repx, text)

    def repstr(m):
        # $strlit<TEXT> : the unique string literal of the body that contains TEXT (the literal itself is spliced)
        hits = [t for t in lets.bodytexts if t.startswith('"') and m.group(1) in t]
        hits = sorted(set(hits))
        if len(hits) != 1:
            raise Unsupported('%s: placeholder %s: %d matching string literals' % (fname, m.group(0), len(hits)))
        return hits[0]
    text = re.sub(r'\$strlit<([^<>$]+)>', repstr, text)

    def repstrnot(m):
        # $strlitnot<TEXT> : the unique string literal of the body that does NOT contain TEXT
        hits = sorted(set(t for t in lets.bodytexts if t.startswith('"') and m.group(1) not in t))
        if len(hits) != 1:
            raise Unsupported('%s: placeholder %s: %d matching string literals' % (fname, m.group(0), len(hits)))
        return hits[0]
    text = re.sub(r'\$strlitnot<([^<>$]+)>', repstrnot, text)

    def repf(m):
        k, i = int(m.group(1)), int(m.group(2))
        pats = lets.forpats
        if k not in pats or i >= len(pats[k]):
            raise Unsupported('%s: placeholder %s: no such loop variable' % (fname, m.group(0)))
        return pats[k][i]
    text = re.sub(r'\$for<(\d+)>#(\d+)', repf, text)

    def replit(m):
        # $looplit<K>#i : the i-th string literal inside the body of loop K (nested loops' literals included)
        k, i = int(m.group(1)), int(m.group(2))
        ls = getattr(lets, 'looplits', {}).get(k)
        if ls is None or i >= len(ls):
            raise Unsupported('%s: placeholder %s: no such string literal' % (fname, m.group(0)))
        return ls[i]
    text = re.sub(r'\$looplit<(\d+)>#(\d+)', replit, text)

    def reparg(m):
        # $arg<NAME>#k : the argument text of the k-th call `NAME(..)` of the body (e.g. what is wrapped by the final `Ok(..)`)
        nm, k = m.group(1).strip(), int(m.group(2))
        bt = lets.bodytexts
        hits = [i for i in range(len(bt) - 1) if bt[i] == nm and bt[i + 1] == '(' and (i == 0 or bt[i - 1] not in ('.', '::'))]
        if k >= len(hits):
            raise Unsupported('%s: placeholder %s: only %d such calls' % (fname, m.group(0), len(hits)))
        i, d, out = hits[k] + 2, 1, []
        while i < len(bt):
            if bt[i] in ('(', '[', '{'):
                d += 1
            elif bt[i] in (')', ']', '}'):
                d -= 1
                if d == 0:
                    break
            out.append(bt[i])
            i += 1
        if not out or not all(re.fullmatch(r'[A-Za-z_][A-Za-z0-9_]*|\.|::', x) for x in out):
            raise Unsupported('%s: placeholder %s: the argument is not a plain path' % (fname, m.group(0)))
        return ''.join(out)
    text = re.sub(r'\$arg<([A-Za-z_][A-Za-z0-9_]*)>#(\d+)', reparg, text)

    def repfe(m):
        # $feach<K> : the collection `X.iter().for_each(..)` statement K iterates over (T12's temporary, or the path X)
        k = int(m.group(1))
        nm = getattr(lets, 'recvs', {}).get(k)
        if not nm:
            raise Unsupported('%s: placeholder %s: loop %d is not a for_each over X.iter()' % (fname, m.group(0), k))
        return nm
    return re.sub(r'\$feach<(\d+)>', repfe, text)


def _param_names(item):
    """names of the non-self parameters of a fn item, in order (None where the parameter is a pattern)"""
    toks = item.toks
    sig = toks[item.lead_end:item.body_open if item.body_open is not None else item.header_end]
    # the parameter list is the first (...) after the fn name (generics <...> contain no parentheses here)
    i = 0
    while i < len(sig) and not (sig[i].kind == 'punct' and sig[i].text == '('):
        i += 1
    if i >= len(sig):
        return []
    e = match_close(sig, i)
    parts, cur, x = [], [], i + 1
    while x < e:
        y = sig[x]
        if y.kind == 'punct' and y.text in rsscan.OPEN:
            z = match_close(sig, x)
            cur += sig[x:z + 1]
            x = z + 1
            continue
        if y.kind == 'punct' and y.text == '<':
            cur.append(y)
        elif y.kind == 'punct' and y.text == ',' and sum(1 for c in cur if c.text == '<') == sum(1 for c in cur if c.text == '>'):
            parts.append(cur)
            cur = []
        else:
            cur.append(y)
        x += 1
    if [c for c in cur if c.sig()]:
        parts.append(cur)
    names = []
    for p in parts:
        sg = [c for c in p if c.sig()]
        head = []
        for c in sg:
            if c.kind == 'punct' and c.text == ':':
                break
            head.append(c)
        hd = [c.text for c in head if c.text not in ('mut', '&') and c.kind != 'life']
        if hd and hd[-1] == 'self':
            continue
        names.append(hd[0] if len(hd) == 1 and re.fullmatch(r'[A-Za-z_]\w*', hd[0]) else None)
    return names


def _rename_idents(text, mapping):
    if not mapping:
        return text
    return render([Tok(t.kind, mapping.get(t.text, t.text) if t.kind == 'ident' else t.text) for t in tokenize(text)])


def _rename_vars(text, mapping):
    """like _rename_idents, for names of VARIABLES: an identifier behind `.` (a field or a method), in front of `(` or
    `::` (a function, a path) or in front of `:` inside a struct literal is something else of the same name"""
    if not mapping:
        return text
    toks = tokenize(text)
    out = []
    for i, t in enumerate(toks):
        tx = t.text
        if t.kind == 'ident' and tx in mapping:
            pv = prev_sig(toks, i - 1)
            nx = next_sig(toks, i + 1)
            is_member = pv >= 0 and toks[pv].text == '.'
            is_call = nx < len(toks) and toks[nx].text in ('(', '::')
            if not is_member and not is_call:
                tx = mapping[tx]
        out.append(Tok(t.kind, tx))
    return render(out)


def _map_params(spec, item):
    """the overlay names the parameters it was written against (params=..); if they have been renamed, rename them in the
    overlay text as well"""
    if spec is None or not spec.params:
        return spec
    now = _param_names(item)
    if len(now) != len(spec.params) or any(n is None for n in now):
        raise Unsupported('%s: parameter list changed (overlay written for %s, found %s)' % (item.name, spec.params, now))
    mapping = dict((o, n) for o, n in zip(spec.params, now) if o != n)
    if not mapping:
        return spec
    if set(mapping.values()) & set(spec.params) - set(mapping.keys()):
        raise Unsupported('%s: parameter renaming %s collides' % (item.name, mapping))
    c = FnSpec(spec.file, spec.impl_re, spec.name)
    c.tags, c.ctags, c.ret, c.lineno, c.optional, c.params = spec.tags, spec.ctags, spec.ret, spec.lineno, spec.optional, now
    c.sections = dict((k, _rename_idents(v, mapping)) for k, v in spec.sections.items())
    c.anchors = [(w, _rename_idents(f, mapping), _rename_idents(t, mapping), no) for (w, f, t, no) in spec.anchors]
    c.foreign = getattr(spec, 'foreign', False)
    return c


def _rename_outside_placeholders(text, mapping):
    """whole-word renaming of overlay text that leaves the inside of `$xxx<..>#k` placeholders (code tokens) alone"""
    store = []

    def stash(m):
        store.append(m.group(0))
        return '\x01%d\x01' % (len(store) - 1)
    for _round in range(8):
        t2 = re.sub(r'\$[a-z]+<[^<>\x01]*(?:\x01\d+\x01[^<>\x01]*)*>(?:#\d+)?', stash, text)
        if t2 == text:
            break
        text = t2
    text = _rename_vars(text, mapping)
    for _round in range(8):
        t2 = re.sub(r'\x01(\d+)\x01', lambda m: store[int(m.group(1))], text)
        if t2 == text:
            break
        text = t2
    return text


def _hygiene(spec, item):
    """the names an overlay block declares for itself (`let ghost x`, `let x` inside proof blocks) must not capture a name
    of the code: where the code (now) uses such a name, the overlay's own is renamed (`x__g`) throughout the block"""
    if spec is None:
        return spec
    alltext = '\n'.join(list(spec.sections.values()) + [a[2] for a in spec.anchors])
    own = set(re.findall(r'\blet\s+(?:ghost\s+)?(?:mut\s+)?([A-Za-z_][A-Za-z0-9_]*)\b', alltext))
    own -= set(['ghost', 'mut'])
    code = set(t.text for t in item.toks if t.kind == 'ident')
    hit = sorted(own & code)
    # the other direction: a local of the code (`let label_text = ..`) must not shadow a spec function the overlay calls by
    # that name: the overlay's calls `name(` are written as the item path `crate::name(`, which a local cannot shadow
    locals_ = set(nm for (nm, _init) in _collect_lets(item.toks))
    called = set(re.findall(r'(?<![\w:.$])([a-z_][A-Za-z0-9_]*)\s*\(', alltext))
    shadowed = sorted((locals_ & called) - own)
    if not hit and not shadowed:
        return spec
    mapping = dict((n, n + '__g') for n in hit)

    def fix(text):
        text = _rename_outside_placeholders(text, mapping) if mapping else text
        for nm in shadowed:
            text = re.sub(r'(?<![\w:.$])%s(\s*\()' % re.escape(nm), r'crate::%s\1' % nm, text)
        return text
    c = FnSpec(spec.file, spec.impl_re, spec.name)
    c.tags, c.ctags, c.ret, c.lineno, c.optional, c.params = spec.tags, spec.ctags, spec.ret, spec.lineno, spec.optional, spec.params
    c.sections = dict((k, fix(v)) for k, v in spec.sections.items())
    c.anchors = [(w, f, fix(t), no) for (w, f, t, no) in spec.anchors]
    c.foreign = getattr(spec, 'foreign', False)
    c.orig = getattr(spec, 'orig', spec)
    return c


def _resolve_spec(spec, body, fname):
    """a copy of the overlay block with the $let placeholders resolved against this function body"""
    if spec is None:
        return None
    alltext = ''.join(spec.sections.values()) + ''.join(a[1] + a[2] for a in spec.anchors)
    if '$let' not in alltext and '$for<' not in alltext and '$recv<' not in alltext and '$strlit<' not in alltext and '$strlitnot<' not in alltext and '$looplit<' not in alltext and '$feach<' not in alltext and '$arg<' not in alltext:
        return spec
    lets = LetList(_collect_lets(body))
    lets.forpats = _collect_for_patterns(body)
    lets.looplits = dict(_collect_for_patterns.lits)
    lets.recvs = dict(_collect_for_patterns.recvs)
    lets.bodytexts = [t.text for t in body if t.sig()]
    c = FnSpec(spec.file, spec.impl_re, spec.name)
    c.tags, c.ctags, c.ret, c.lineno = spec.tags, spec.ctags, spec.ret, spec.lineno
    c.optional = spec.optional
    c.sections = dict((k, _subst_placeholders(v, lets, fname)) for k, v in spec.sections.items())
    c.anchors = [(w, _subst_placeholders(f, lets, fname), _subst_placeholders(t, lets, fname), no) for (w, f, t, no) in spec.anchors]
    c.orig = spec
    return c


def extract_fn(item, file, impl_key, spec, twin_false=False, wraps=()):
    """item: rsscan.Item of kind fn. Returns FnOut."""
    dropped = []
    orig_spec = spec
    spec = _map_params(spec, item)
    spec = _hygiene(spec, item)
    if item.body_open is not None:
        spec = _resolve_spec(spec, item.toks[item.body_open + 1:item.body_close], item.name)
    _strip_lead(item, dropped)
    toks = item.toks
    if item.body_open is None:
        raise Unsupported('fn %s has no body' % item.name)
    sig = toks[item.lead_end:item.body_open]
    body = toks[item.body_open + 1:item.body_close]
    # T7: name the return value
    out = []
    ret_name = spec.ret if spec else 'r'
    arrow = None
    depth = 0
    for i, t in enumerate(sig):
        if t.kind == 'punct' and t.text in ('(', '[', '<'):
            depth += 1
        elif t.kind == 'punct' and t.text in (')', ']', '>'):
            depth -= 1
        elif t.kind == 'punct' and t.text == '->' and depth == 0:
            arrow = i
    # NB: '<'/'>' counting is only used to find the top-level arrow; generics in these signatures are balanced.
    if arrow is not None:
        j = next_sig(sig, arrow + 1)
        rt = _trim(sig[j:])
        if any(_is_kw(t, 'where') for t in rt):
            raise Unsupported('where clause after return type in %s' % item.name)
        out += sig[:j]
        out += lit('(%s: ' % ret_name, 'T7')
        out += rt
        out += lit(')', 'T7')
    else:
        out += _trim(sig)
    out += lit('\n', 'T6')
    used = set()
    if spec and 'requires' in spec.sections:
        out += splice_toks('requires\n' + spec.sections['requires'])
        used.add('requires')
    ens = spec.sections.get('ensures') if spec else None
    if ens is not None:
        used.add('ensures')
    if twin_false:
        # an uninterpreted boolean per function: provable only if the context is contradictory,
        # and harmless for callers (unlike `ensures false`, which would poison every caller)
        ens = (ens or '') + '//# vacuity-false:\nvacuity_probe_%s(),\n' % twin_false
    if ens is not None:
        out += splice_toks('ensures\n' + ens + '//#end\n')
    if spec and 'decreases' in spec.sections:
        out += splice_toks('decreases\n' + spec.sections['decreases'] + '//#end\n')
        used.add('decreases')
    out.append(toks[item.body_open])
    if spec and 'body-start' in spec.sections:
        out += splice_toks('\n' + spec.sections['body-start'])
        used.add('body-start')
    b = _drop_logging(body, dropped)
    b = _opaque_messages(b, dropped)
    b = _operator_calls(b, dropped)
    b = _wrap_methods(b, wraps, dropped)
    cctr = LoopCounter()
    b = _closures(b, spec, cctr, dropped, used)
    if spec:
        # positional closure contracts: more closure arguments of that method than the overlay knows means the ordinals may
        # have shifted - a lost anchor, not something to guess about
        want = {}
        for key in spec.sections:
            if isinstance(key, tuple) and key[0] == 'closure@':
                want[key[1]] = max(want.get(key[1], 0), key[2] + 1)
        for meth, n in want.items():
            if getattr(cctr, 'meth', {}).get(meth, 0) > n:
                raise Unsupported('%s: %d closure arguments of `%s(..)`, the overlay has contracts for %d (ordinals may have shifted)'
                                  % (item.name, cctr.meth[meth], meth, n))
    ctr = LoopCounter()
    b = _desugar(b, spec, ctr, dropped, used)
    if spec:
        for (where, frag, text, _no) in spec.anchors:
            b = _apply_anchor(b, where, frag, text, item.name)
    if spec and 'tail-before' in spec.sections:
        # in front of the tail expression (the value the function returns): after the last `;` / statement-closing `}` at
        # depth 0 that is followed by something; at the very end if the body has no tail expression
        pos, depth, x = 0, 0, 0
        while x < len(b):
            t = b[x]
            if t.kind == 'punct' and t.text in rsscan.OPEN:
                y = match_close(b, x)
                if t.text == '{':
                    nx = next_sig(b, y + 1)
                    if nx < len(b) and not (b[nx].text in ('else', '.', '?', 'as') or (b[nx].kind == 'punct' and b[nx].text not in ('(', '[', '{', '&', '*', '!', '-', '|'))):
                        pos = y + 1
                    elif nx >= len(b):
                        pos = len(b)
                x = y + 1
                continue
            if t.kind == 'punct' and t.text == ';':
                pos = x + 1
            x += 1
        b = b[:pos] + splice_toks('\n' + spec.sections['tail-before']) + b[pos:]
        used.add('tail-before')
    out += b
    if spec and 'body-end' in spec.sections:
        out += splice_toks('\n' + spec.sections['body-end'])
        used.add('body-end')
    out.append(toks[item.body_close])
    if spec:
        for s in spec.sections:
            if s not in used and not (isinstance(s, tuple) and (s[0] == 'closure~' or s in getattr(spec, 'optional', ()))):
                raise Unsupported('%s: overlay section %r has no place in the code (loop ordinal gone?)' % (item.name, s))
        spec.used = True
        orig_spec.used = True
    # ---------------- provenance check ----------------
    want = [t for t in toks[item.lead_end:] if t.sig()]
    dropped_ids = set()
    for d in dropped:
        for t in d[2]:
            if t.sig():
                if id(t) in dropped_ids:
                    raise Unsupported('provenance: token dropped twice in %s' % item.name)
                dropped_ids.add(id(t))
    emitted = [t for t in out if t.sig() and t.origin == 'orig']
    # expected order: the source order minus dropped tokens, with each `for PAT in EXPR` emitted as EXPR .. PAT (T3)
    exp = [t for t in want if id(t) not in dropped_ids]
    for d in dropped:
        if d[0] != 'T3swap':
            continue
        pat, expr = d[3], d[4]
        pat = [t for t in pat if id(t) not in dropped_ids and t.origin == 'orig']
        expr = [t for t in expr if id(t) not in dropped_ids and t.origin == 'orig']
        if not pat:
            continue
        idx = [i for i, t in enumerate(exp) if t is pat[0]]
        if len(idx) != 1:
            raise Unsupported('provenance: T3 pattern not found in %s' % item.name)
        i = idx[0]
        seg = exp[i:i + len(pat) + len(expr)]
        if [id(t) for t in seg] != [id(t) for t in pat + expr]:
            raise Unsupported('provenance: T3 pattern/expression not adjacent in %s' % item.name)
        exp[i:i + len(pat) + len(expr)] = expr + pat
    if [id(t) for t in exp] != [id(t) for t in emitted]:
        raise Unsupported('provenance check failed for %s: emitted source tokens are not the source minus T2/T3 spans, '
                          'in source order' % item.name)
    for t in out:
        if t.origin not in ('orig', 'T3', 'T6', 'T7', 'T8', 'T9', 'T10', 'T12', 'T13'):
            raise Unsupported('provenance: unknown origin %s' % t.origin)
    rt = [t.text for t in tokenize(render(out)) if t.sig()]
    if rt != [t.text for t in out if t.sig()]:
        raise Unsupported('provenance: rendering of %s does not re-tokenize to the same tokens' % item.name)
    first = toks[item.lead_end]
    fo = FnOut(item.name, out, dropped, file, first.line, spec)
    fo.loops = ctr.n
    return fo


def extract_contract(item, spec):
    """Signature (copied from the source, T7 applied) + the overlay's requires/ensures, body `unimplemented!()`,
    marked external_body: the callee is used by its contract only; its body is verified in the owning unit."""
    toks = item.toks
    orig = spec
    spec = _map_params(spec, item)
    orig.used = True
    sig = toks[item.lead_end:item.body_open]
    out = lit('#[verifier::external_body] // contract-only: body verified in the unit that owns this contract\n', 'T6')
    arrow, depth = None, 0
    for i, t in enumerate(sig):
        if t.kind == 'punct' and t.text in ('(', '[', '<'):
            depth += 1
        elif t.kind == 'punct' and t.text in (')', ']', '>'):
            depth -= 1
        elif t.kind == 'punct' and t.text == '->' and depth == 0:
            arrow = i
    if arrow is not None:
        j = next_sig(sig, arrow + 1)
        out += sig[:j] + lit('(%s: ' % spec.ret, 'T7') + _trim(sig[j:]) + lit(')', 'T7')
    else:
        out += _trim(sig)
    out += lit('\n', 'T6')
    if 'requires' in spec.sections:
        out += splice_toks('requires\n' + _strip_markers(spec.sections['requires']))
    if 'ensures' in spec.sections:
        out += splice_toks('ensures\n' + _strip_markers(spec.sections['ensures']))
    if arrow is not None and any(_is_kw(t, 'impl') for t in sig[arrow:]):
        # an `impl Trait` return type needs a body rustc can infer the type from: the real body (T2/T9 applied) is
        # kept, unverified (external_body), so that the opaque type is the real one
        dr = []
        body = _opaque_messages(_drop_logging(toks[item.body_open + 1:item.body_close], dr), dr)
        out += [toks[item.body_open]] + body + [toks[item.body_close]]
    else:
        out += lit('{ unimplemented!() }', 'T6')
    spec.used = True
    return out


def _strip_markers(text):
    return '\n'.join(l for l in text.split('\n') if not l.strip().startswith('//#')) + '\n'


# --------------------------------------------------------------------------------------
# type / const extraction (T4)
# --------------------------------------------------------------------------------------

def extract_type(item, derives, add=()):
    dropped = []
    out = []
    keep = []
    for (a, b) in item.attrs():
        toks = item.toks[a:b]
        names = [t.text for t in toks if t.kind == 'ident']
        if names and names[0] == 'derive':
            have = names[1:]
            keep = [d for d in have if d in derives]
            dropped.append(('T4', 'derive: dropped ' + ','.join(d for d in have if d not in derives)))
        elif names and names[0] in DROP_ATTRS + ('serde',):
            dropped.append(('T1', render(toks)))
        else:
            raise Unsupported('type attribute not understood: %s' % render(toks))
    keep = list(keep) + [d for d in add if d not in keep]
    if keep:
        out += lit('#[derive(%s)]\n' % ', '.join(keep), 'T4')
    body = item.toks[item.lead_end:]
    # drop field docs and #[serde(..)] field attributes
    i, n = 0, len(body)
    res = []
    while i < n:
        t = body[i]
        if t.kind in ('lcomment', 'bcomment'):
            dropped.append(('T1', t.text))
            i += 1
            continue
        if t.kind == 'punct' and t.text == '#':
            j = next_sig(body, i + 1)
            k = match_close(body, j)
            names = [x.text for x in body[j:k] if x.kind == 'ident']
            if names and names[0] in ('serde', 'doc'):
                dropped.append(('T4', render(body[i:k + 1])))
                i = k + 1
                continue
            raise Unsupported('field attribute not understood: %s' % render(body[i:k + 1]))
        res.append(t)
        i += 1
    out += res
    return out, dropped


def extract_const(item):
    out = [t for t in item.toks[item.lead_end:] if t.kind not in ('lcomment', 'bcomment')]
    return out


# --------------------------------------------------------------------------------------
# unit assembly
# --------------------------------------------------------------------------------------

class Unit:
    def __init__(self, name):
        self.name = name
        self.text = ''
        self.functions = []     # dict(qual, start, end, src_file, src_line, tags, kind)
        self.regions = []       # dict(label, tags, start, end, scope)
        self.linemap = {}       # emitted line -> (src_file, src_line)
        self.dropped = []       # (fn, reason, text)
        self.sources = set()
        self.trusted = []       # occurrences of external_body / assume_specification / axiom / assume / admit


def _load_items(repo, file, cache):
    if file not in cache:
        p = os.path.join(repo, 'src', file)
        with open(p, encoding='utf-8') as f:
            txt = f.read()
        toks = tokenize(txt, file)
        if render(toks) != txt:
            raise Unsupported('scanner does not round-trip %s' % file)
        cache[file] = rsscan.split_items(toks)
    return cache[file]


def _find_impl(repo, file, hre, cache):
    items = _load_items(repo, file, cache)
    hits = rsscan.find_impl(items, hre)
    if len(hits) != 1:
        raise Unsupported('impl %s in %s: %d matches (lost anchor)' % (hre, file, len(hits)))
    return hits[0]


def build_unit(name, repo, template_path, overlay_path, twin_false=False, variants=frozenset(), base=None):
    specs = load_overlay(overlay_path, variants)
    with open(template_path, encoding='utf-8') as f:
        tlines = filter_variant(f.read().split('\n'), variants)
    # `//@overlays A,B`: contract blocks of other units (for callees taken by contract only); those may stay unused
    foreign = []
    for ln in tlines:
        if ln.strip().startswith('//@overlays '):
            for nm in ln.strip().split(None, 1)[1].split(','):
                fs = load_overlay(os.path.join(VERIF, 'specs', nm.strip() + '.spec'), variants)
                for s in fs:
                    s.foreign = True
                foreign += fs
    byk = {}
    for s in foreign:
        if s.key() in byk:
            raise Unsupported('overlay: duplicate fn block %s' % (s.key(),))
        byk[s.key()] = s
    own = set()
    for s in specs:
        # the unit's own block wins over a foreign one (e.g. a contract-free stub of a callee)
        if s.key() in own:
            raise Unsupported('overlay: duplicate fn block %s' % (s.key(),))
        own.add(s.key())
        byk[s.key()] = s
    cache = {}
    u = Unit(name)
    u.base = base or name
    chunks = []   # list of ('text', str) | ('toks', [Tok], meta)
    probes = []

    def emit_fn(file, hre, impl_item, fname, contract_only=False, wraps=()):
        sub = rsscan.split_items(impl_item.body_toks())
        hits = rsscan.find_item(sub, 'fn', fname)
        if len(hits) != 1:
            raise Unsupported('fn %s in %s %s: %d matches (lost anchor)' % (fname, file, hre, len(hits)))
        spec = byk.get((file, hre, fname))
        if contract_only:
            # callee taken by its contract only (its body is verified in the unit that owns the overlay block)
            if spec is None:
                raise Unsupported('contract-only fn %s has no overlay block' % fname)
            chunks.append(('toks', extract_contract(hits[0], spec), file))
            chunks.append(('text', '\n'))
            return
        probe = None
        if twin_false:
            probe = 'p%d' % len(probes)
            probes.append(probe)
        fo = extract_fn(hits[0], file, hre, spec, probe, wraps=wraps)
        chunks.append(('fn', fo, file, hre))

    def process(lines, depth=0):
        if depth > 5:
            raise Unsupported('include depth')
        for ln in lines:
            st = ln.strip()
            if st.startswith('//@variants ') or st.startswith('//@overlays '):
                continue
            if st.startswith('//@include '):
                p = os.path.join(VERIF, st.split(None, 1)[1].strip())
                with open(p, encoding='utf-8') as f:
                    process(filter_variant(f.read().split('\n'), variants), depth + 1)
            elif st == '//@vacuity-probes':
                for pn in probes:
                    chunks.append(('text', 'pub uninterp spec fn vacuity_probe_%s() -> bool;\n' % pn))
            elif st.startswith('//@extract '):
                a = st.split()
                kind = a[1]
                if kind == 'const':
                    file, nm = a[2], a[3]
                    items = _load_items(repo, file, cache)
                    hits = rsscan.find_item(items, 'const', nm)
                    if len(hits) != 1:
                        raise Unsupported('const %s in %s: %d matches' % (nm, file, len(hits)))
                    ct = _trim(extract_const(hits[0]))
                    chunks.append(('toks', (ct if ct and ct[0].text == 'pub' else lit('pub ', 'T4') + ct), file))
                elif kind == 'consts':
                    # every top-level `const` of the file (so that a newly introduced constant is seen too)
                    file = a[2]
                    for it in _load_items(repo, file, cache):
                        if it.kind == 'const' and not it.attrs():
                            ct = _trim(extract_const(it))
                            chunks.append(('toks', (ct if ct and ct[0].text == 'pub' else lit('pub ', 'T4') + ct), file))
                elif kind == 'type':
                    file, nm = a[2], a[3]
                    derives = DEFAULT_DERIVES
                    add = ()
                    for o in a[4:]:
                        if o.startswith('derive='):
                            derives = tuple(x for x in o[7:].split(',') if x)
                        elif o.startswith('add='):
                            add = tuple(x for x in o[4:].split(',') if x)
                    items = _load_items(repo, file, cache)
                    hits = [it for it in items if it.kind in ('struct', 'enum') and it.name == nm]
                    if len(hits) != 1:
                        raise Unsupported('type %s in %s: %d matches' % (nm, file, len(hits)))
                    toks, dr = extract_type(hits[0], derives, add)
                    for d in dr:
                        u.dropped.append((nm,) + d)
                    chunks.append(('toks', _trim(toks), file))
                elif kind == 'impl':
                    file, hre = a[2], a[3]
                    fns, consts, conly, inherent, wraps = [], [], [], False, ()
                    for o in a[4:]:
                        if o.startswith('fns='):
                            fns = [x for x in o[4:].split(',') if x]
                        elif o.startswith('wrap='):
                            wraps = tuple(x for x in o[5:].split(',') if x)
                        elif o.startswith('consts='):
                            consts = [x for x in o[7:].split(',') if x]
                        elif o.startswith('contract='):
                            conly = [x for x in o[9:].split(',') if x]
                        elif o == 'inherent':
                            inherent = True
                    im = _find_impl(repo, file, hre, cache)
                    hdr = _trim(im.toks[im.lead_end:im.body_open])
                    if inherent:
                        # T11: the methods of a trait impl are emitted as inherent methods of the type (`Trait for` is
                        # dropped from the impl header; the bodies are untouched) - a trait method cannot take a contract
                        # when the type implements two traits with a method of that name
                        fi = [k for k, t in enumerate(hdr) if t.kind == 'ident' and t.text == 'for']
                        if len(fi) != 1:
                            raise Unsupported('impl %s in %s: not a trait impl (T11)' % (hre, file))
                        k0 = next_sig(hdr, 1)
                        if hdr[k0].text == '<':
                            depth = 0
                            while k0 < len(hdr):
                                if hdr[k0].text == '<':
                                    depth += 1
                                elif hdr[k0].text == '>':
                                    depth -= 1
                                    if depth == 0:
                                        break
                                k0 += 1
                            k0 += 1
                        u.dropped.append((hre, 'T11', render(hdr[k0:fi[0] + 1]).strip()))
                        hdr = hdr[:k0] + lit(' ', 'T11') + hdr[fi[0] + 1:]
                    chunks.append(('toks', hdr + lit(' {\n', 'T5'), file))
                    sub = rsscan.split_items(im.body_toks())
                    for c in consts:
                        hits = rsscan.find_item(sub, 'const', c)
                        if len(hits) != 1:
                            raise Unsupported('const %s in impl %s: %d matches' % (c, hre, len(hits)))
                        # Verus mode keyword: an associated const is emitted as `exec const` (no-op for rustc)
                        chunks.append(('toks', lit('exec ', 'T4') + _trim(extract_const(hits[0])), file))
                        chunks.append(('text', '\n'))
                    for fn in conly:
                        emit_fn(file, hre, im, fn, contract_only=True)
                    for fn in fns:
                        emit_fn(file, hre, im, fn, wraps=wraps)
                        chunks.append(('text', '\n'))
                    chunks.append(('text', '}\n'))
                elif kind == 'uses':
                    # T5: of the source files' `use` lines only those naming the (shimmed) container crates are
                    # carried over, de-duplicated; everything else lives in this one module already
                    files = a[2].split(',')
                    crates = ('emap', 'micromap', 'microstack')
                    for o in a[3:]:
                        if o.startswith('crates='):
                            crates = tuple(x for x in o[7:].split(',') if x)
                    seen_use = set()
                    for file in files:
                        for it in _load_items(repo, file, cache):
                            if it.kind != 'use' or it.attrs():
                                continue
                            toks_u = _trim([t for t in it.toks[it.lead_end:] if t.kind not in ('lcomment', 'bcomment')])
                            sig = [t.text for t in toks_u if t.sig()]
                            k0 = 1
                            if len(sig) > 1 and sig[1] == '::':
                                k0 = 2
                            if len(sig) > k0 and sig[k0] in crates:
                                key = ''.join(sig)
                                if key not in seen_use:
                                    seen_use.add(key)
                                    chunks.append(('toks', toks_u, file))
                elif kind == 'implitems':
                    # like impl, but also copies associated `type X = ..;` items (trait impls)
                    file, hre = a[2], a[3]
                    fns, wraps = [], ()
                    for o in a[4:]:
                        if o.startswith('fns='):
                            fns = [x for x in o[4:].split(',') if x]
                        elif o.startswith('wrap='):
                            wraps = tuple(x for x in o[5:].split(',') if x)
                    im = _find_impl(repo, file, hre, cache)
                    hdr = _trim(im.toks[im.lead_end:im.body_open])
                    chunks.append(('toks', hdr + lit(' {\n', 'T5'), file))
                    sub = rsscan.split_items(im.body_toks())
                    for it in sub:
                        if it.kind == 'type':
                            chunks.append(('toks', _trim([t for t in it.toks if t.kind not in ('lcomment', 'bcomment')]), file))
                            chunks.append(('text', '\n'))
                    for fn in fns:
                        emit_fn(file, hre, im, fn, wraps=wraps)
                        chunks.append(('text', '\n'))
                    chunks.append(('text', '}\n'))
                else:
                    raise Unsupported('unknown extract kind %s' % kind)
            else:
                chunks.append(('text', ln + '\n'))

    process(tlines)
    for s in specs:
        if not s.used:
            raise Unsupported('overlay block for %s %s %s was never used' % s.key())

    # ---------------- render + maps ----------------
    line = 1
    parts = []
    for ch in chunks:
        if ch[0] == 'text':
            parts.append(ch[1])
            line += ch[1].count('\n')
        elif ch[0] == 'toks':
            for t in ch[1]:
                if t.origin == 'orig' and t.sig():
                    u.linemap.setdefault(line, (t.src, t.line))
                    u.sources.add(t.src)
                line += t.text.count('\n')
            parts.append(render(ch[1]))
            parts.append('\n')
            line += 1
        else:
            fo = ch[1]
            start = line
            for t in fo.toks:
                if t.origin == 'orig' and t.sig():
                    u.linemap.setdefault(line, (t.src, t.line))
                    u.sources.add(t.src)
                line += t.text.count('\n')
            parts.append(render(fo.toks))
            u.functions.append(dict(qual=fo.qual, file=ch[2], impl=ch[3], start=start, end=line,
                                    src_line=fo.src_line, tags=(fo.spec.tags if fo.spec else []),
                                    ctags=((fo.spec.ctags or fo.spec.tags) if fo.spec else []),
                                    has_spec=fo.spec is not None, loops=fo.loops,
                                    idents=[t.text for t in fo.toks if t.origin == 'orig' and t.kind == 'ident']))
            for d in fo.dropped:
                if d[0] != 'T3swap':
                    u.dropped.append((fo.qual, d[0], d[1]))
    u.text = ''.join(parts)
    # regions from //# markers
    cur = None
    lines = u.text.split('\n')
    for no, ln in enumerate(lines, 1):
        st = ln.strip()
        if st.startswith('//#'):
            if cur is not None:
                cur['end'] = no - 1
                u.regions.append(cur)
                cur = None
            m = re.fullmatch(r'//#\s*([A-Za-z0-9_.\-]+)\s*:\s*(.*)', st)
            if m:
                cur = dict(label=m.group(1), tags=m.group(2).split(), start=no, end=no)
            elif st != '//#end':
                raise Unsupported('bad marker line %d: %s' % (no, st))
    if cur is not None:
        cur['end'] = len(lines)
        u.regions.append(cur)
    for r in u.regions:
        r['scope'] = None
        for fdesc in u.functions:
            if fdesc['start'] <= r['start'] <= fdesc['end']:
                r['scope'] = fdesc['qual'] if not _dup_name(u, fdesc) else '%s@%d' % (fdesc['qual'], fdesc['src_line'])
    # unique function ids
    for fdesc in u.functions:
        fdesc['id'] = fdesc['qual'] if not _dup_name(u, fdesc) else '%s@%s' % (fdesc['qual'], _impl_short(fdesc['impl']))
    for r in u.regions:
        if r['scope'] is not None:
            for fdesc in u.functions:
                if fdesc['start'] <= r['start'] <= fdesc['end']:
                    r['scope'] = fdesc['id']
    # trusted-construct scan
    for no, ln in enumerate(lines, 1):
        code = ln.split('//')[0]
        for kw in ('external_body', 'assume_specification', 'axiom fn', 'assume(', 'admit(', 'external_fn_specification',
                   'external_type_specification', 'verifier::external'):
            if kw in code:
                u.trusted.append((no, kw, ln.strip()))
    return u


def _dup_name(u, fdesc):
    return sum(1 for g in u.functions if g['qual'] == fdesc['qual']) > 1


def _impl_short(hre):
    s = re.sub(r'[^A-Za-z0-9]+', '_', hre).strip('_')
    return s


def write_unit(u, outdir):
    os.makedirs(outdir, exist_ok=True)
    p = os.path.join(outdir, u.name + '.rs')
    _atomic_write(p, u.text)
    meta = dict(name=u.name, base=getattr(u, 'base', u.name), functions=u.functions, regions=u.regions,
                linemap={str(k): v for k, v in u.linemap.items()},
                dropped=u.dropped, trusted=u.trusted, sources=sorted(u.sources))
    _atomic_write(os.path.join(outdir, u.name + '.meta.json'), json.dumps(meta, indent=1))
    return p


def _atomic_write(path, text):
    # several checks may run at once and extract the same unit: never expose a half-written file
    tmp = '%s.%d.tmp' % (path, os.getpid())
    with open(tmp, 'w', encoding='utf-8') as f:
        f.write(text)
    os.replace(tmp, path)


if __name__ == '__main__':
    import argparse
    ap = argparse.ArgumentParser()
    ap.add_argument('unit')
    ap.add_argument('--repo', default='/repo')
    ap.add_argument('--out', default=os.path.join(VERIF, 'build', 'units'))
    ap.add_argument('--twin', action='store_true')
    ap.add_argument('--variant', action='append', default=[])
    a = ap.parse_args()
    try:
        with open(os.path.join(VERIF, 'units', a.unit + '.rs.in'), encoding='utf-8') as f0:
            l0 = f0.readline().strip()
        if l0.startswith('//@variants '):
            a.variant += l0.split()[1:]
        u = build_unit(a.unit + ('_twin' if a.twin else ''), a.repo,
                       os.path.join(VERIF, 'units', a.unit + '.rs.in'),
                       os.path.join(VERIF, 'specs', a.unit + '.spec'), twin_false=a.twin,
                       variants=frozenset(a.variant))
    except Unsupported as e:
        print('EXTRACT-UNSUPPORTED: %s' % e)
        sys.exit(2)
    print(write_unit(u, a.out))
    print('functions: %s' % ', '.join(f['id'] for f in u.functions))
    print('regions: %d, trusted constructs: %d, dropped spans: %d' % (len(u.regions), len(u.trusted), len(u.dropped)))
