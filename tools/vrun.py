"""
vrun.py - run Verus on an extracted unit, cache by content hash, attribute diagnostics
to named obligations (DESIGN.md §3.6).
"""
import hashlib
import json
import os
import re
import subprocess
import sys
import time

sys.path.insert(0, os.path.dirname(os.path.abspath(__file__)))
import extract  # noqa: E402

VERIF = extract.VERIF
BUILD = os.path.join(VERIF, 'build')
VERUS_FLAGS = ['--triggers-mode', 'silent', '--multiple-errors', '40', '--output-json', '--time',
               '--error-format=json']


def verus_version():
    try:
        out = subprocess.run(['verus', '--version'], capture_output=True, text=True, timeout=60).stdout
        m = re.search(r'Version: (\S+)', out)
        return m.group(1) if m else out.strip().split('\n')[0]
    except Exception as e:  # pragma: no cover
        return 'unknown (%s)' % e


class UnitRun:
    def __init__(self):
        self.unit = None          # extract.Unit
        self.path = None
        self.meta = None
        self.result = None        # parsed verus result
        self.cached = False
        self.cmd = ''
        self.wall = 0.0


def default_variants(unit):
    with open(os.path.join(VERIF, 'units', unit + '.rs.in'), encoding='utf-8') as f:
        first = f.readline().strip()
    if first.startswith('//@variants '):
        return frozenset(first.split()[1:])
    return frozenset()


def build(unit, repo, twin=False, variants=frozenset(), tag=''):
    variants = frozenset(variants) | default_variants(unit)
    name = unit + ('_twin' if twin else '') + (('_' + '_'.join(sorted(variants))) if variants else '') + tag
    u = extract.build_unit(name, repo,
                           os.path.join(VERIF, 'units', unit + '.rs.in'),
                           os.path.join(VERIF, 'specs', unit + '.spec'),
                           twin_false=twin, variants=variants, base=unit)
    path = extract.write_unit(u, os.path.join(BUILD, 'units'))
    return u, path


def run_verus(path, extra=(), rlimit=None, timeout=1800, use_cache=True):
    """returns dict(result) ; cached under build/cache/<sha>.json"""
    with open(path, 'rb') as f:
        content = f.read()
    flags = list(VERUS_FLAGS) + list(extra)
    if rlimit:
        flags += ['--rlimit', str(rlimit)]
    h = hashlib.sha256(content + b'\0' + ' '.join(flags).encode()).hexdigest()[:24]
    cdir = os.path.join(BUILD, 'cache')
    os.makedirs(cdir, exist_ok=True)
    cpath = os.path.join(cdir, h + '.json')
    cmd = ['verus', path] + flags
    if use_cache and os.path.exists(cpath):
        try:
            with open(cpath) as f:
                r = json.load(f)
            r['cached'] = True
            return r
        except Exception:
            pass
    t0 = time.time()
    try:
        p = subprocess.run(cmd, capture_output=True, text=True, timeout=timeout, cwd=os.path.dirname(path))
        out, err, rc = p.stdout, p.stderr, p.returncode
        timed_out = False
    except subprocess.TimeoutExpired as e:
        out, err, rc, timed_out = (e.stdout or ''), (e.stderr or ''), -9, True
        if isinstance(out, bytes):
            out = out.decode('utf-8', 'replace')
        if isinstance(err, bytes):
            err = err.decode('utf-8', 'replace')
    wall = time.time() - t0
    r = dict(cmd=' '.join(cmd), rc=rc, wall_s=wall, timed_out=timed_out, sha=h, cached=False)
    js = None
    try:
        js = json.loads(out)
    except Exception:
        # stdout may have non-json noise before the object
        i = out.find('{')
        if i >= 0:
            try:
                js = json.loads(out[i:])
            except Exception:
                js = None
    r['json_ok'] = js is not None
    vr = (js or {}).get('verification-results', {})
    r['verified'] = vr.get('verified')
    r['errors'] = vr.get('errors')
    r['success'] = vr.get('success', False)
    r['vir_error'] = vr.get('encountered-vir-error', False)
    funcs = {}
    tm = (js or {}).get('times-ms', {})
    smt = tm.get('smt', {}) if isinstance(tm, dict) else {}
    for mod in smt.get('smt-run-module-times', []) or []:
        for fb in mod.get('function-breakdown', []) or []:
            funcs[fb['function']] = dict(success=fb.get('success'), time_us=fb.get('time-micros'),
                                         rlimit=fb.get('rlimit'), mode=fb.get('mode:'))
    r['functions'] = funcs
    r['smt_ms'] = smt.get('total')
    r['total_ms'] = tm.get('total') if isinstance(tm, dict) else None
    diags = []
    for ln in err.split('\n'):
        ln = ln.strip()
        if not ln.startswith('{'):
            continue
        try:
            d = json.loads(ln)
        except Exception:
            continue
        if d.get('$message_type') != 'diagnostic':
            continue
        spans = []

        def collect(dd):
            for s in dd.get('spans', []) or []:
                spans.append(dict(line_start=s['line_start'], line_end=s['line_end'], label=s.get('label'),
                                  primary=s.get('is_primary', False), file=s.get('file_name')))
            for c in dd.get('children', []) or []:
                collect(c)
        collect(d)
        diags.append(dict(level=d.get('level'), message=d.get('message'), spans=spans,
                          rendered=d.get('rendered')))
    r['diags'] = diags
    r['stderr_tail'] = err[-4000:] if js is None else ''
    tmp = '%s.%d.tmp' % (cpath, os.getpid())
    with open(tmp, 'w') as f:
        json.dump(r, f)
    os.replace(tmp, cpath)
    return r


SMT_FAIL = (
    'postcondition not satisfied',
    'precondition not satisfied',
    'assertion failed',
    'invariant not satisfied',
    'loop invariant not satisfied',
    'possible arithmetic underflow/overflow',
    'possible division by zero',
    'possible bit shift underflow/overflow',
    'decreases not satisfied',
    'could not prove termination',
    'recommendation not met',
    'unreachable',
    'cannot show invariant holds',
    'unable to prove',
    'cannot show',
    'failed',
)
UNDECIDED_MSG = ('resource limit', 'rlimit', 'timed out', 'timeout')


class Attribution:
    def __init__(self):
        self.failed = {}         # obligation id -> [messages]
        self.undecided = []      # text
        self.fatal = []          # rustc / vir errors (tool could not process the text)
        self.all_obligations = []  # [(id, tags, kind)]
        self.hints = []          # (function obligation id, message): failing unlabelled overlay asserts


def obligations_of(meta):
    """All obligations the unit defines: labelled regions + per-function safety."""
    obs = []
    uname = meta.get('base') or meta['name']
    for r in meta['regions']:
        scope = r['scope'] or 'model'
        obs.append(dict(id='%s/%s/%s' % (_base(uname), scope, r['label']), tags=r['tags'], kind='clause',
                        start=r['start'], end=r['end'], scope=scope))
    for f in meta['functions']:
        obs.append(dict(id='%s/%s/safety' % (_base(uname), f['id']), tags=f['tags'], kind='safety',
                        start=f['start'], end=f['end'], scope=f['id']))
        if f.get('ctags') is not None and f.get('idents') is not None and 'closure-contract' not in [r['label'] for r in meta['regions'] if r['scope'] == f['id']]:
            # a closure's own postcondition (spliced inline, so it has no line region): its own obligation
            obs.append(dict(id='%s/%s/closure-contract' % (_base(uname), f['id']), tags=f['ctags'], kind='closure',
                            start=-1, end=-1, scope=f['id']))
    return obs


def _base(uname):
    return uname


def attribute(meta, result):
    a = Attribution()
    hints = []
    obs = obligations_of(meta)
    a.all_obligations = obs
    regions = [o for o in obs if o['kind'] == 'clause']
    funcs = [o for o in obs if o['kind'] == 'safety']
    if result.get('timed_out'):
        a.undecided.append('verus timed out')
    if not result.get('json_ok'):
        a.fatal.append('no JSON result from verus: ' + (result.get('stderr_tail') or '')[-800:])
    for d in result['diags']:
        if d['level'] not in ('error',):
            continue
        msg = d['message'] or ''
        low = msg.lower()
        if low.startswith('aborting due to'):
            continue
        if any(k in low for k in UNDECIDED_MSG):
            a.undecided.append(msg + _where(d))
            continue
        is_smt = any(k in low for k in SMT_FAIL)
        # find a labelled region hit by any span
        hit = None
        for s in d['spans']:
            for r in regions:
                if r['start'] <= s['line_start'] <= r['end']:
                    if hit is None or (s.get('label') and 'failed' in (s.get('label') or '')):
                        hit = r
        if hit is None:
            # safety obligation of the enclosing extracted function (primary span decides)
            prim = [s for s in d['spans'] if s['primary']] or d['spans']
            for s in prim:
                for f in funcs:
                    if f['start'] <= s['line_start'] <= f['end']:
                        hit = f
                        break
                if hit:
                    break
            if hit is not None and 'post-condition of closure' in low:
                cc = [o for o in obs if o['kind'] == 'closure' and o['scope'] == hit['scope']]
                if cc:
                    hit = cc[0]
        if not is_smt:
            a.fatal.append(msg + _where(d))
            continue
        if hit is None:
            a.fatal.append('unattributed verification failure: ' + msg + _where(d))
            continue
        if hit['kind'] == 'safety' and low.startswith('assertion failed'):
            # an `assert` outside every labelled region: it is on a line of the overlay (no source token on it), i.e. an
            # unlabelled proof HINT of mine, not an obligation of the code. Everything after it was proved assuming it,
            # so a failing hint alone leaves the unit undecided; it is never a verdict by itself.
            prim = [s_ for s_ in d['spans'] if s_['primary']] or d['spans']
            if prim and str(prim[0]['line_start']) not in meta['linemap']:
                hints.append((hit['id'], msg + _where(d)))
                continue
        a.failed.setdefault(hit['id'], []).append(msg + _where(d))
    a.hints = hints
    if hints and not a.failed:
        for (fid, m) in hints[:4]:
            a.undecided.append('a proof hint of the overlay no longer holds in %s (proof incomplete, not a verdict): %s' % (fid, m))
    if result.get('vir_error'):
        a.fatal.append('verus reported a VIR error (unsupported construct?)')
    if result.get('errors') and not a.failed and not a.undecided and not a.fatal:
        a.fatal.append('verus reported %s errors but none could be attributed' % result.get('errors'))
    if result.get('rc') not in (0, None) and not result.get('errors') and not a.fatal and not a.undecided \
            and not a.failed:
        a.fatal.append('verus exited with rc=%s' % result.get('rc'))
    return a


def _where(d):
    prim = [s for s in d['spans'] if s['primary']]
    if prim:
        return ' @unit-line %d' % prim[0]['line_start']
    return ''


def src_of(meta, line):
    lm = meta['linemap']
    for delta in range(0, 60):
        v = lm.get(str(line - delta))
        if v:
            return v
    return None
