"""
rsscan.py - a small Rust token scanner and item locator.

Not a parser: it understands just enough lexical structure (comments, string /
raw-string / byte-string / char literals, lifetimes, bracket nesting) to find
items by path and to copy their token text verbatim.  Everything the extractor
emits from /repo goes through Tok objects created here, so provenance (which
emitted token came from which source byte) is known by construction.
"""
import re

OPEN = {'(': ')', '[': ']', '{': '}'}
CLOSE = {')': '(', ']': '[', '}': '{'}

PUNCT3 = ('<<=', '>>=', '...', '..=')
PUNCT2 = ('->', '=>', '::', '==', '!=', '<=', '>=', '&&', '||', '+=', '-=', '*=', '/=',
          '%=', '^=', '&=', '|=', '<<', '>>', '..')


class Tok:
    __slots__ = ('kind', 'text', 'pos', 'line', 'origin', 'src')

    def __init__(self, kind, text, pos=-1, line=-1, origin='orig', src=None):
        self.kind = kind      # ws | lcomment | bcomment | str | char | life | ident | num | punct
        self.text = text
        self.pos = pos        # byte offset in the source file (orig tokens only)
        self.line = line      # 1-based source line (orig tokens only)
        self.origin = origin  # orig | T3 | T6 | T7 | T8 ...
        self.src = src        # source file name (orig tokens only)

    def sig(self):
        return self.kind not in ('ws', 'lcomment', 'bcomment')

    def is_doc(self):
        return (self.kind == 'lcomment' and (self.text.startswith('///') or self.text.startswith('//!'))
                and not self.text.startswith('////')) or \
               (self.kind == 'bcomment' and (self.text.startswith('/**') or self.text.startswith('/*!'))
                and not self.text.startswith('/***') and self.text != '/**/')

    def __repr__(self):
        return 'Tok(%s,%r,%s)' % (self.kind, self.text, self.origin)


class ScanError(Exception):
    pass


def tokenize(text, src=None, origin='orig'):
    toks = []
    i, n, line = 0, len(text), 1
    ident_re = re.compile(r'(?:r#)?[^\W\d]\w*')
    num_re = re.compile(r'[0-9][0-9A-Za-z_]*(?:\.[0-9][0-9A-Za-z_]*)?')
    while i < n:
        c = text[i]
        start = i
        if c in ' \t\r\n':
            while i < n and text[i] in ' \t\r\n':
                i += 1
            kind = 'ws'
        elif text.startswith('//', i):
            j = text.find('\n', i)
            i = n if j < 0 else j
            kind = 'lcomment'
        elif text.startswith('/*', i):
            depth, i = 1, i + 2
            while i < n and depth > 0:
                if text.startswith('/*', i):
                    depth += 1
                    i += 2
                elif text.startswith('*/', i):
                    depth -= 1
                    i += 2
                else:
                    i += 1
            if depth:
                raise ScanError('unterminated block comment at line %d' % line)
            kind = 'bcomment'
        elif c == '"' or (c in 'bc' and text.startswith('"', i + 1)):
            i = i + 1 if c == '"' else i + 2
            while i < n and text[i] != '"':
                i += 2 if text[i] == '\\' else 1
            if i >= n:
                raise ScanError('unterminated string at line %d' % line)
            i += 1
            kind = 'str'
        elif re.match(r'(?:b|c)?r#*"', text[i:i + 40]):
            m = re.match(r'(?:b|c)?r(#*)"', text[i:i + 40])
            closing = '"' + m.group(1)
            j = text.find(closing, i + m.end())
            if j < 0:
                raise ScanError('unterminated raw string at line %d' % line)
            i = j + len(closing)
            kind = 'str'
        elif c == "'" or (c == 'b' and text.startswith("'", i + 1)):
            # char literal or lifetime
            j = i + (1 if c == "'" else 2)
            m = None
            if c == "'":
                m = re.match(r"'([A-Za-z_][A-Za-z0-9_]*)(?!')", text[i:i + 80])
            if m:
                i += m.end()
                kind = 'life'
            else:
                if j < n and text[j] == '\\':
                    j += 2
                    while j < n and text[j] != "'":
                        j += 1
                else:
                    j += 1
                    # multi-byte chars are single python chars already
                if j >= n or text[j] != "'":
                    raise ScanError('bad char literal at line %d' % line)
                i = j + 1
                kind = 'char'
        elif ident_re.match(text, i):
            i = ident_re.match(text, i).end()
            kind = 'ident'
        elif c.isdigit():
            m = num_re.match(text, i)
            i = m.end()
            # "1..2" : do not eat the range dots
            t = text[start:i]
            if '.' in t and text.startswith('..', start + t.index('.')):
                i = start + t.index('.')
            kind = 'num'
        else:
            if text[i:i + 3] in PUNCT3:
                i += 3
            elif text[i:i + 2] in PUNCT2:
                i += 2
            else:
                i += 1
            kind = 'punct'
        t = text[start:i]
        toks.append(Tok(kind, t, start, line, origin, src))
        line += t.count('\n')
    return toks


def render(toks):
    return ''.join(t.text for t in toks)


def sig_texts(toks):
    return [t.text for t in toks if t.sig()]


def match_close(toks, i):
    """toks[i] is an opening bracket; return index of its partner."""
    o = toks[i].text
    assert o in OPEN, toks[i]
    depth = 0
    for j in range(i, len(toks)):
        t = toks[j]
        if t.kind != 'punct':
            continue
        if t.text in OPEN:
            depth += 1
        elif t.text in CLOSE:
            depth -= 1
            if depth == 0:
                if CLOSE[t.text] != o:
                    raise ScanError('mismatched bracket at line %s' % t.line)
                return j
    raise ScanError('unclosed bracket from line %s' % toks[i].line)


def next_sig(toks, i):
    """index of the first significant token at or after i (or len)."""
    while i < len(toks) and not toks[i].sig():
        i += 1
    return i


def prev_sig(toks, i):
    while i >= 0 and not toks[i].sig():
        i -= 1
    return i


ITEM_KW = ('fn', 'struct', 'enum', 'union', 'impl', 'const', 'static', 'use', 'mod', 'type', 'trait',
           'macro_rules', 'extern')


class Item:
    def __init__(self, kind, name, toks, lead_end, header_end, body_open, body_close):
        self.kind = kind
        self.name = name
        self.toks = toks                # all tokens incl. leading attrs/docs
        self.lead_end = lead_end        # index of first token after attrs/docs
        self.header_end = header_end    # index of '{' or ';' ending the header
        self.body_open = body_open      # index of '{' or None
        self.body_close = body_close    # index of '}' or None

    def header_text(self):
        return ' '.join(sig_texts(self.toks[self.lead_end:self.header_end]))

    def header_key(self):
        return ''.join(sig_texts(self.toks[self.lead_end:self.header_end]))

    def body_toks(self):
        return self.toks[self.body_open + 1:self.body_close]

    def attrs(self):
        """list of (start,end) index ranges of outer attributes in the lead."""
        out = []
        i = 0
        while i < self.lead_end:
            t = self.toks[i]
            if t.kind == 'punct' and t.text == '#':
                j = next_sig(self.toks, i + 1)
                if self.toks[j].text == '!':
                    j = next_sig(self.toks, j + 1)
                k = match_close(self.toks, j)
                out.append((i, k + 1))
                i = k + 1
            else:
                i += 1
        return out


def split_items(toks):
    """Split a token list (file top level or the inside of an impl/mod block) into Items."""
    items = []
    i, n = 0, len(toks)
    while True:
        start = i
        # leading trivia, docs and attributes
        j = i
        while j < n:
            t = toks[j]
            if not t.sig():
                j += 1
            elif t.kind == 'punct' and t.text == '#':
                k = next_sig(toks, j + 1)
                if k < n and toks[k].text == '!':
                    k = next_sig(toks, k + 1)
                j = match_close(toks, k) + 1
            else:
                break
        if j >= n:
            break
        lead_end = j
        # find kind
        kind, name = None, None
        k = j
        while k < n:
            t = toks[k]
            if t.sig():
                if t.kind == 'ident' and t.text in ITEM_KW:
                    if t.text == 'const':
                        k2 = next_sig(toks, k + 1)
                        if toks[k2].text in ('fn', 'unsafe', 'extern', 'async'):
                            k = k2
                            continue
                    if t.text == 'extern':
                        k2 = next_sig(toks, k + 1)
                        if toks[k2].kind == 'str':
                            k2 = next_sig(toks, k2 + 1)
                        if toks[k2].text == 'fn':
                            k = k2
                            continue
                    kind = t.text
                    break
                if t.kind == 'punct' and t.text == '(':
                    k = match_close(toks, k)  # pub(crate)
                elif t.kind == 'ident' and t.text in ('pub', 'unsafe', 'async', 'default', 'crate'):
                    pass
                else:
                    # macro invocation or something unknown at item level
                    kind = 'other'
                    break
            k += 1
        if kind is None:
            raise ScanError('cannot classify item at line %s' % toks[j].line)
        if kind not in ('impl', 'other', 'use', 'extern'):
            k2 = next_sig(toks, k + 1)
            if kind == 'macro_rules':
                k2 = next_sig(toks, k2 + 1)
            name = toks[k2].text if k2 < n else None
        # find end: first ';' or '{...}' at depth 0
        m = k
        body_open = body_close = None
        while m < n:
            t = toks[m]
            if t.kind == 'punct':
                if t.text == ';':
                    break
                if t.text == '{' and kind in ('use', 'const', 'static', 'type'):
                    m = match_close(toks, m)
                elif t.text == '{':
                    body_open = m
                    body_close = match_close(toks, m)
                    m = body_close
                    break
                if t.text in ('(', '['):
                    m = match_close(toks, m)
            m += 1
        if m >= n:
            raise ScanError('unterminated item at line %s' % toks[j].line)
        header_end = body_open if body_open is not None else m
        end = m + 1
        # `struct X {..}` / `enum` end at '}', tuple struct ends at ';' -- handled above
        sub = toks[start:end]
        items.append(Item(kind, name, sub, lead_end - start, header_end - start,
                          None if body_open is None else body_open - start,
                          None if body_close is None else body_close - start))
        i = end
    return items


def find_impl(items, header_regex):
    hits = [it for it in items if it.kind == 'impl' and re.fullmatch(header_regex, it.header_key())]
    return hits


def find_item(items, kind, name):
    return [it for it in items if it.kind == kind and it.name == name]
