"""Deciding parts other than the Verus units: Kani harness groups (complete / bounded), bounded drivers."""
import os
import re
import kanirun

VERIF = kanirun.VERIF


def _is_must_panic(name):
    return name.endswith('_oob')


def kani_group(label, names, complete, tier='quick', timeout=600, kind='hex'):
    """A group of Kani harnesses. complete=True: loop-free over the full domain => counted as discharged
    obligations; complete=False: bounded stand-in, reported, never counted as proved."""

    def run(ctx):
        import check  # late import (module cycle)
        K = 'K_' + kind
        base = check.load_json(check.BASELINE, {}).get(K, [])
        try:
            res = kanirun.run_harnesses(ctx.repo, names, timeout=timeout, use_cache=ctx.use_cache or ctx.freeze, kind=kind)
        except Exception as e:  # extraction problem, lost anchor ...
            ctx.undecided.append('kani(%s): %s' % (label, e))
            return dict(obligations=0, discharged=0, kind='kani', complete=complete)
        ob, ok = 0, 0
        rows = []
        solver = 0.0
        for n in names:
            r = res[n]
            v = kanirun.verdict(r, _is_must_panic(n))
            oid = K + '/' + n.replace('harness::', '')
            ob += 1
            solver += r.get('solver_s') or 0
            rows.append(dict(obligation=oid, verdict=v, checks=r.get('checks'), solver_s=r.get('solver_s'),
                             must_panic=_is_must_panic(n), cached=r.get('cached', False), stubs=r.get('stubs')))
            if v == 'pass':
                ok += 1
                if ctx.freeze:
                    ctx.freeze_k.setdefault(K, []).append(oid)
            elif v == 'undecided':
                ctx.undecided.append('kani harness %s: %s %s' % (n, r['status'], (r.get('tail') or '')[-300:]))
            else:
                if oid not in base:
                    ctx.undecided.append('kani harness %s fails but was never in the baseline' % n)
                    continue
                rp = kani_replay(ctx, n, r, kind)
                ctx.violations.append((oid, rp[0], rp[1]))
        ctx.solver_ms += int(solver * 1000)
        cmd = 'cargo kani -Z stubbing --harness <name> --exact   (crate build/kani_%s, includes %s/src/%s.rs by #[path])' % (kind, ctx.repo, {'hex': 'hex', 'types': 'label'}.get(kind, '(dependency crates)'))
        if cmd not in ctx.checker_cmds:
            ctx.checker_cmds.append(cmd)
        return dict(obligations=ob, discharged=ok, kind='kani', complete=complete,
                    bound=(None if complete else ('heap variant: symbolic Vec length <= 12 (VMAX)' if kind == 'hex' else
                                                 'element types u8/usize, emap capacity <= 3, micromap/microstack N = 3')),
                    back_end='Kani 0.68.0 -> CBMC 6.11 -> CaDiCaL', rows=rows)

    return dict(name=label, run=run, tier=tier, counts_as_proof=complete)


def kani_replay(ctx, name, r, kind='hex'):
    """Concrete playback of a failing harness, then run the generated test natively against the real hex.rs."""
    os.makedirs(os.path.join(VERIF, 'replays'), exist_ok=True)
    p = os.path.join(VERIF, 'replays', '%s-K_%s_%s.txt' % (ctx.pid, kind, re.sub(r'\W+', '_', name)))
    text = ['property: %s' % ctx.pid, 'failed obligation: K_%s/%s' % (kind, name.replace('harness::', '')),
            'verifier: Kani 0.68.0 / CBMC 6.11', 'command: %s' % r.get('cmd'), 'failed checks:']
    for fc in r.get('failed_checks', []):
        text.append('  %s  (%s:%s)' % (fc[0], fc[1], fc[2]))
    has_input = False
    try:
        pb = kanirun.playback(ctx.repo, name, kind=kind)
        t = pb.get('playback_test') or ''
        if t.strip():
            text += ['', '--- counterexample (Kani concrete playback) ---', t]
            vals = kanirun.decode_playback(t)
            if vals:
                text += ['concrete bytes per kani::any() call, in order: %s' % vals]
            rr = kanirun.run_playback_natively(ctx.repo, name, t, kind=kind)
            text += ['', '--- replay against the real source file (native build, no verifier) ---', rr['summary']]
            has_input = rr['reproduced']
        else:
            text += ['', 'Kani produced no concrete playback test', pb.get('raw_tail', '')[-1500:]]
    except Exception as e:
        text += ['', 'playback failed: %r' % e]
    if not has_input:
        text.append('no-failing-input-found')
    with open(p, 'w') as f:
        f.write('\n'.join(text) + '\n')
    return p, has_input


def native_audit(label, tier='thorough'):
    """Native audit of the trusted std / hex-crate contracts (audit/stdaxioms.rs): a small program that restates each
    axiom of shim/stdstr.rs and shim/hexcrate.rs against the real functions (exhaustive over u8 / char where stated,
    sampled otherwise). An audit: reported, never counted as proved; a failing audit is undecided (a trusted contract of
    mine would be wrong), never a verdict about the repository."""
    import shutil
    import subprocess

    def run(ctx):
        d = os.path.join(VERIF, 'build', 'audit_std')
        os.makedirs(os.path.join(d, 'src'), exist_ok=True)
        os.makedirs(os.path.join(d, '.cargo'), exist_ok=True)
        shutil.copy(os.path.join(VERIF, 'audit', 'stdaxioms.rs'), os.path.join(d, 'src', 'main.rs'))
        with open(os.path.join(d, 'Cargo.toml'), 'w') as f:
            f.write('[package]\nname = "auditstd"\nversion = "0.0.0"\nedition = "2021"\n\n[dependencies]\nhex = "0.4.3"\n\n[workspace]\n')
        with open(os.path.join(d, '.cargo', 'config.toml'), 'w') as f:
            f.write('[net]\noffline = true\n')
        lock = os.path.join(ctx.repo, 'Cargo.lock')
        if not os.path.exists(lock):
            lock = '/repo/Cargo.lock'
        if not os.path.exists(os.path.join(d, 'Cargo.lock')):
            shutil.copy(lock, os.path.join(d, 'Cargo.lock'))
        env = dict(os.environ, CARGO_NET_OFFLINE='true')
        try:
            p = subprocess.run(['cargo', 'run', '--release', '--offline', '-q'], cwd=d, env=env, capture_output=True, text=True, timeout=900)
        except Exception as e:
            ctx.undecided.append('native audit %s: %r' % (label, e))
            return dict(obligations=0, discharged=0, kind='native-audit', complete=False)
        rows = [ln for ln in p.stdout.split('\n') if ln.startswith('audit ')]
        ok = [r for r in rows if ' ok ' in r]
        if p.returncode != 0 or len(ok) != len(rows) or not rows:
            ctx.undecided.append('native audit of the trusted std contracts failed: %s' % ('; '.join(r for r in rows if r not in ok) or p.stderr[-400:]))
        cmd = 'cargo run --release --offline   (crate build/audit_std = audit/stdaxioms.rs + hex 0.4.3)'
        if cmd not in ctx.checker_cmds:
            ctx.checker_cmds.append(cmd)
        return dict(obligations=len(rows), discharged=len(ok), kind='native-audit', complete=False,
                    bound='exhaustive over all u8 (x 520 prefixes) and all char; sampled texts and 70194 usize values otherwise',
                    back_end='rustc (native run against std and hex 0.4.3); an audit of trusted contracts, not a proof', rows=rows)

    return dict(name=label, run=run, tier=tier, counts_as_proof=False)
