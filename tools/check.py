#!/usr/bin/env python3
"""
check.py - decide one property (DESIGN.md §3.6).

  ./check <ID> [--tier quick|thorough] [--repo /repo] [--no-cache] [--freeze-baseline]

exit 0  every obligation of the property discharged (KNOWN-FINDING lines possible)
exit 1  VIOLATION property=<id> replay=<path>
exit 2  UNDECIDED (tool could not process the text, lost anchor, rlimit, vacuity guard) - never an alarm
"""
import argparse
import json
import os
import re
import sys
import time

sys.path.insert(0, os.path.dirname(os.path.abspath(__file__)))
import extract  # noqa: E402
import vrun     # noqa: E402
import props    # noqa: E402

VERIF = extract.VERIF
BASELINE = os.path.join(VERIF, 'baseline', 'obligations.json')
WHITELIST = os.path.join(VERIF, 'baseline', 'trusted_whitelist.json')
KNOWN = os.path.join(VERIF, 'known_findings.json')


def load_json(p, default):
    if os.path.exists(p):
        with open(p) as f:
            return json.load(f)
    return default


class Ctx:
    def __init__(self, pid, tier, repo, seed, use_cache):
        self.pid, self.tier, self.repo, self.seed, self.use_cache = pid, tier, repo, seed, use_cache
        self.lines = []
        self.undecided = []
        self.violations = []     # (obligation id, replay path, has_input)
        self.known = []
        self.t0 = time.time()
        self.unit_runs = {}
        self.extra_cov = {}
        self.assumptions = []
        self.solver_ms = 0
        self.checker_cmds = []
        self.freeze = False
        self.freeze_k = {}

    def say(self, s):
        print(s)
        sys.stdout.flush()


def run_unit(ctx, unit, twin=False, variants=frozenset(), extra=(), rlimit=None, tag=''):
    key = (unit, twin, variants, tuple(extra), rlimit, tag)
    if key in ctx.unit_runs:
        return ctx.unit_runs[key]
    try:
        u, path = vrun.build(unit, ctx.repo, twin=twin, variants=variants, tag=tag)
    except extract.Unsupported as e:
        ctx.undecided.append('extract %s: %s' % (unit, e))
        ctx.unit_runs[key] = None
        return None
    except rsscan_error() as e:
        ctx.undecided.append('scan %s: %s' % (unit, e))
        ctx.unit_runs[key] = None
        return None
    with open(os.path.join(vrun.BUILD, 'units', u.name + '.meta.json')) as f:
        meta = json.load(f)
    res = vrun.run_verus(path, extra=extra, rlimit=rlimit, use_cache=ctx.use_cache)
    att = vrun.attribute(meta, res)
    # a closure contract that does not type-check against the (changed) closure: extract again without it, so that what
    # rested on it is judged (unprovable) instead of the unit being refused
    drop = set()
    for m in att.fatal:
        mm = re.search(r'mismatched types.*@unit-line (\d+)', m)
        if mm:
            try:
                with open(path, encoding='utf-8') as f:
                    ln = f.read().split('\n')[int(mm.group(1)) - 1]
                drop |= set(re.findall(r'/\*cs=([^*]+)\*/', ln))
            except Exception:
                pass
    if drop and not extract.DROP_CLOSURE_SPECS:
        extract.DROP_CLOSURE_SPECS = set(drop)
        try:
            u, path = vrun.build(unit, ctx.repo, twin=twin, variants=variants, tag=tag + '_nocs')
            with open(os.path.join(vrun.BUILD, 'units', u.name + '.meta.json')) as f:
                meta = json.load(f)
            res = vrun.run_verus(path, extra=extra, rlimit=rlimit, use_cache=ctx.use_cache)
            att = vrun.attribute(meta, res)
            ctx.lines.append('note: closure contract(s) %s do not type-check against the code any more; judged without them' % sorted(drop))
        except extract.Unsupported as e:
            ctx.undecided.append('extract %s: %s' % (unit, e))
        finally:
            extract.DROP_CLOSURE_SPECS = set()
    if att.undecided and rlimit is None and not twin:
        # one retry with a doubled resource limit before giving up (never an alarm)
        res2 = vrun.run_verus(path, extra=extra, rlimit=20, use_cache=ctx.use_cache)
        att2 = vrun.attribute(meta, res2)
        if not att2.undecided:
            res, att = res2, att2
    unattr = [m for m in att.fatal if m.startswith('unattributed verification failure')]
    if (att.failed or unattr) and not extra and len(unattr) == len(att.fatal):
        # A failed obligation is believed only if it fails under two more solver seeds as well: a proof found under any
        # seed is a proof (the solver is sound whatever its seed), so an unstable query cannot raise an alarm. The same
        # holds for an unlabelled model lemma (no obligation of its own): it only counts if it fails under every seed.
        import concurrent.futures

        def rerun(k):
            ex = ('--smt-option', 'smt.random_seed=%d' % (ctx.seed + 100 + k), '--rlimit', '20')
            r2 = vrun.run_verus(path, extra=ex, use_cache=ctx.use_cache)
            return r2, vrun.attribute(meta, r2)
        with concurrent.futures.ThreadPoolExecutor(max_workers=2) as pool:
            reruns = list(pool.map(rerun, (1, 2)))
        for (r2, a2) in reruns:
            if a2.undecided or [m for m in a2.fatal if not m.startswith('unattributed verification failure')]:
                continue
            if unattr and not a2.fatal:
                ctx.lines.append('note: %s: a model lemma failed under the default solver seed and is proved under another seed (unstable query)' % u.name)
                att.fatal = []
                unattr = []
            for oid in list(att.failed):
                if oid not in a2.failed:
                    if not twin:
                        ctx.lines.append('note: %s failed under the default solver seed but is proved under another seed (unstable query, not a verdict against the code)' % oid)
                        del att.failed[oid]
    ctx.unit_runs[key] = (u, meta, res, att)
    ctx.solver_ms += (res.get('smt_ms') or 0)
    if res.get('cmd') and res['cmd'] not in ctx.checker_cmds:
        ctx.checker_cmds.append(res['cmd'])
    return ctx.unit_runs[key]


def rsscan_error():
    import rsscan
    return rsscan.ScanError


def sanitize(s):
    return re.sub(r'[^A-Za-z0-9_.\-]+', '_', s)


def write_replay(ctx, ob_id, meta, msgs, res, extra_text=''):
    os.makedirs(os.path.join(VERIF, 'replays'), exist_ok=True)
    p = os.path.join(VERIF, 'replays', '%s-%s.txt' % (ctx.pid, sanitize(ob_id)))
    with open(p, 'w') as f:
        f.write('property: %s\nfailed obligation: %s\n' % (ctx.pid, ob_id))
        f.write('verifier: Verus %s (Z3 bundled)\ncommand: %s\n' % (vrun.verus_version(), res.get('cmd')))
        for m in msgs:
            f.write('diagnostic: %s\n' % m)
            mm = re.search(r'@unit-line (\d+)', m)
            if mm:
                src = vrun.src_of(meta, int(mm.group(1)))
                if src:
                    f.write('  source: %s/src/%s:%s\n' % (ctx.repo, src[0], src[1]))
        f.write('\n--- verifier output (rendered) ---\n')
        for d in res['diags']:
            if d['level'] == 'error' and d.get('rendered'):
                f.write(d['rendered'] + '\n')
        if extra_text:
            f.write('\n--- counterexample / replay ---\n' + extra_text + '\n')
        else:
            f.write('\nno concrete failing input: Verus produces no model; see DESIGN.md §3.6 (no-failing-input-found)\n')
    return p


def main():
    ap = argparse.ArgumentParser()
    ap.add_argument('pid')
    ap.add_argument('--tier', default=os.environ.get('VERIF_TIER', 'quick'), choices=['quick', 'thorough'])
    ap.add_argument('--repo', default=os.environ.get('VERIF_REPO', '/repo'))
    ap.add_argument('--no-cache', action='store_true')
    ap.add_argument('--freeze-baseline', action='store_true',
                    help='maintenance: record the obligations that verify now (never used by registered commands)')
    a = ap.parse_args()
    seed = int(os.environ.get('VERIF_SEED', '0') or 0)
    if a.pid not in props.PROPS:
        print('unknown or not-applicable property %s' % a.pid)
        sys.exit(2)
    P = props.PROPS[a.pid]
    ctx = Ctx(a.pid, a.tier, a.repo, seed, use_cache=not a.no_cache and a.tier == 'quick')
    ctx.freeze = a.freeze_baseline
    baseline = load_json(BASELINE, {})
    whitelist = load_json(WHITELIST, {})
    known = load_json(KNOWN, {'findings': []})

    my_obs = []          # obligations of this property
    failed = {}          # ob id -> (msgs, meta, res)
    func_rows = []
    trusted_found = []
    for unit in P['units']:
        r = run_unit(ctx, unit)
        if r is None:
            continue
        u, meta, res, att = r
        for m in att.fatal:
            ctx.undecided.append('%s: %s' % (unit, m))
        for m in att.undecided:
            ctx.undecided.append('%s: %s' % (unit, m))
        for o in att.all_obligations:
            if a.pid in o['tags']:
                my_obs.append(o)
        for oid, msgs in att.failed.items():
            failed[oid] = (msgs, meta, res)
        # taint: Verus assumes a failed assertion and goes on, so every other obligation of the same function was
        # discharged UNDER the failed one. If this property has obligations in such a function but none of its own fails
        # there, they are not proved: undecided (never "holds")
        by_id = dict((o['id'], o) for o in att.all_obligations)
        for oid in att.failed:
            fo = by_id.get(oid)
            if fo is None or a.pid in fo['tags'] or fo['scope'] == 'model':
                continue
            mine_here = [o for o in att.all_obligations if a.pid in o['tags'] and o['scope'] == fo['scope']]
            if mine_here and not any(o['id'] in att.failed for o in mine_here):
                ctx.undecided.append('%s: obligation %s (not an obligation of %s) fails; the obligations of %s in %s were '
                                     'discharged assuming it - not proved' % (unit, oid, a.pid, a.pid, fo['scope']))
        # per-function rows for the evidence
        for f in meta['functions']:
            fr = None
            for name, st in res['functions'].items():
                if name.endswith('::' + f['qual']) and st.get('mode') == 'exec':
                    fr = st
            func_rows.append(dict(unit=unit, function=f['id'], source='src/%s:%s' % (f['file'], f['src_line']),
                                  loops=f['loops'],
                                  smt_time_us=(fr or {}).get('time_us'), rlimit=(fr or {}).get('rlimit')))
        # trusted-construct scan against the committed whitelist
        wl = set(whitelist.get(unit, []))
        for (no, kw, text) in meta['trusted']:
            trusted_found.append('%s: %s' % (unit, text))
            if text not in wl and not a.freeze_baseline:
                ctx.undecided.append('%s: trusted construct not in whitelist (line %d): %s' % (unit, no, text))
        # vacuity guard: twin with `ensures false` on every function under contract
        if P.get('twin', True) and meta['functions'] and not att.fatal:
            tr = run_unit(ctx, unit, twin=True)
            if tr is not None:
                tu, tmeta, tres, tatt = tr
                if tatt.fatal:
                    ctx.undecided.append('vacuity guard: the twin of %s could not be processed: %s' % (unit, tatt.fatal[0][:300]))
                    continue
                for f in tmeta['functions']:
                    oid = '%s/%s/vacuity-false' % (unit, f['id'])
                    any_fail = any(k.startswith('%s/%s/' % (unit, f['id'])) for k in tatt.failed)
                    # the solver giving up on the probe (resource limit) is also "not proved"
                    for m in tatt.undecided:
                        mm = re.search(r'@unit-line (\d+)', m)
                        if mm and f['start'] <= int(mm.group(1)) <= f['end']:
                            any_fail = True
                    if not any_fail:
                        ctx.undecided.append('vacuity guard: %s verifies `ensures false` (contradictory contract?)' % oid)

    stability = []
    if a.tier == 'thorough' and not a.freeze_baseline:
        # stability: the same unit under two more solver seeds and a doubled resource limit must give the same verdicts
        for unit in P['units']:
            base_r = ctx.unit_runs.get((unit, False, frozenset(), (), None, ''))
            if not base_r:
                continue
            base_failed = set(base_r[3].failed)
            for k in (1, 2):
                extra = ('--smt-option', 'smt.random_seed=%d' % (seed + k), '--rlimit', '20')
                r = run_unit(ctx, unit, extra=extra, tag='_seed%d' % k)
                if r is None:
                    continue
                same = set(r[3].failed) == base_failed and not r[3].undecided and not r[3].fatal
                stability.append(dict(unit=unit, random_seed=seed + k, rlimit=20, same_verdicts=same,
                                      smt_ms=r[2].get('smt_ms')))
                if not same:
                    ctx.undecided.append('unstable proof: %s gives different verdicts under smt.random_seed=%d'
                                         % (unit, seed + k))

    if a.freeze_baseline:
        for part in P.get('parts', []):
            part['run'](ctx)
        for k, v in ctx.freeze_k.items():
            baseline[k] = sorted(set(baseline.get(k, [])) | set(v))
        for unit in P['units']:
            r = ctx.unit_runs.get((unit, False, frozenset(), (), None, ''))
            if not r:
                continue
            u, meta, res, att = r
            good = [o['id'] for o in att.all_obligations if o['id'] not in att.failed]
            baseline[unit] = sorted(good)
            baseline['sensitive::' + unit] = dict((f['id'], props.sensitive_tokens(f.get('idents', [])))
                                                  for f in meta['functions'])
            whitelist[unit] = sorted(set(t for (_n, _k, t) in meta['trusted']))
        os.makedirs(os.path.dirname(BASELINE), exist_ok=True)
        with open(BASELINE, 'w') as f:
            json.dump(baseline, f, indent=1, sort_keys=True)
        with open(WHITELIST, 'w') as f:
            json.dump(whitelist, f, indent=1, sort_keys=True)
        print('baseline frozen for units %s' % P['units'])
        sys.exit(0)

    if not my_obs and not ctx.undecided:
        ctx.undecided.append('no obligation carries tag %s (vacuous check)' % a.pid)

    base_all = set()
    for unit in P['units']:
        base_all |= set(baseline.get(unit, []))
    # obligations that the baseline promises for this property must still exist
    my_ids = set(o['id'] for o in my_obs)

    discharged = 0
    kf_count = 0
    for o in my_obs:
        oid = o['id']
        if oid not in failed:
            discharged += 1
            continue
        msgs, meta, res = failed[oid]
        kf = [k for k in known.get('findings', []) if k.get('status') == 'open' and k.get('property') == a.pid
              and k.get('obligation') == oid]
        if kf:
            k = kf[0]
            unit = oid.split('/')[0]
            vr = run_unit(ctx, unit, variants=frozenset([k['variant']]))
            ok = False
            if vr is not None:
                vu, vmeta, vres, vatt = vr
                ch = k['characterisation']
                have = [x for x in vatt.all_obligations if x['id'] == ch]
                ok = bool(have) and ch not in vatt.failed and not vatt.fatal and not vatt.undecided
            if ok:
                ctx.say('KNOWN-FINDING: property=%s %s' % (a.pid, k['what']))
                ctx.known.append(k)
                kf_count += 1
                continue
            # fails, but not in the way the finding describes -> a different violation
        if oid not in base_all:
            ctx.undecided.append('obligation %s fails but was never in the baseline (not a verdict)' % oid)
            continue
        if P.get('classify') and oid.split('/')[1] not in P.get('classify_exempt', ()):
            verdict_, why = P['classify'](ctx, oid, meta, baseline)
            if verdict_ != 'violation':
                ctx.undecided.append('obligation %s failed: %s' % (oid, why))
                continue
        extra = ''
        if P.get('replayer'):
            try:
                extra = P['replayer'](ctx, oid) or ''
            except Exception as e:  # replay is best effort, never decides
                extra = ''
                ctx.lines.append('replay helper failed: %s' % e)
        rp = write_replay(ctx, oid, meta, msgs, res, extra)
        ctx.violations.append((oid, rp, bool(extra)))

    # extra deciding parts (Kani complete harnesses, bounded drivers): each returns (obligations, discharged)
    extra_parts = []
    for part in P.get('parts', []):
        if part.get('tier') == 'thorough' and a.tier != 'thorough':
            continue
        try:
            pr = part['run'](ctx)
        except Exception as e:
            ctx.undecided.append('part %s crashed: %r' % (part['name'], e))
            continue
        extra_parts.append((part, pr))

    wall = time.time() - ctx.t0
    # ---------------- verdict ----------------
    ob_n = len(my_obs) - kf_count + len(ctx.known)
    # a known finding is replaced by its (discharged) characterisation in the count
    dis_n = discharged + len(ctx.known)
    for part, pr in extra_parts:
        if part.get('counts_as_proof'):
            ob_n += pr['obligations']
            dis_n += pr['discharged']
    ev = dict(
        property_id=a.pid, tier=a.tier, seed=seed, level=P['level'],
        coverage=dict(
            obligations=ob_n, discharged=dis_n,
            checker_cmd='; '.join(ctx.checker_cmds) or 'verus <unit>.rs ' + ' '.join(vrun.VERUS_FLAGS),
            trusted_base=P.get('trusted_base', []) + sorted(set(trusted_found)),
            explanation=P.get('explanation', ''),
            back_end='Verus %s -> bundled Z3; %s' % (vrun.verus_version(), P.get('back_end_extra', '')),
            functions_under_contract=func_rows,
            solver_time_ms=ctx.solver_ms,
            samples=[dict(obligation=o['id'], kind=o['kind'],
                          status=('failed' if o['id'] in failed else 'discharged')) for o in my_obs][:60],
            known_findings=[k['what'] for k in ctx.known],
            parts=[dict(name=p['name'], **pr) for p, pr in extra_parts],
            not_covered=P.get('not_covered', []),
            stability_runs=stability,
            cached_verdicts=any((r and r[2].get('cached')) for r in ctx.unit_runs.values()),
            undecided=ctx.undecided,
        ),
        assumptions=P.get('assumptions', []) + props.COMMON_ASSUMPTIONS,
        wall_s=round(wall, 3),
        violations=len(ctx.violations),
    )
    ev['coverage'].update(ctx.extra_cov)
    # evidence/ describes /repo only: a run against a scratch copy (--repo elsewhere) writes its record under build/
    ev_dir = os.path.join(VERIF, 'evidence')
    if os.path.realpath(a.repo) != os.path.realpath(os.environ.get('VERIF_REPO', '/repo')):
        ev_dir = os.path.join(VERIF, 'build', 'evidence_scratch')
    os.makedirs(ev_dir, exist_ok=True)
    with open(os.path.join(ev_dir, a.pid + '.json'), 'w') as f:
        json.dump(ev, f, indent=1)

    for ln in ctx.lines:
        ctx.say(ln)
    if ctx.violations:
        for (oid, rp, has_input) in ctx.violations:
            ctx.say('failed obligation: %s' % oid)
            ctx.say('VIOLATION property=%s replay=%s%s' % (a.pid, rp, '' if has_input else ' no-failing-input-found'))
        sys.exit(1)
    if ctx.undecided:
        for m in ctx.undecided[:8]:
            ctx.say('UNDECIDED: %s' % m)
        if len(ctx.undecided) > 8:
            ctx.say('UNDECIDED: ... and %d more (see evidence file)' % (len(ctx.undecided) - 8))
        sys.exit(2)
    ctx.say('OK property=%s tier=%s obligations=%d discharged=%d known_findings=%d wall=%.1fs'
            % (a.pid, a.tier, ob_n, dis_n, len(ctx.known), wall))
    sys.exit(0)


if __name__ == '__main__':
    main()
