"""Property table: which units, which extra deciding parts, what is trusted."""
import parts

H = 'harness::'
INDEX_KINDS = ['usize', 'range', 'from', 'incl', 'to', 'toincl']


def _fam(mod):
    out = [H + '%s::index_%s_ok' % (mod, k) for k in INDEX_KINDS] + \
          [H + '%s::index_%s_oob' % (mod, k) for k in INDEX_KINDS] + \
          [H + '%s::index_full_ok' % mod, H + '%s::index_mut_ok' % mod, H + '%s::index_mut_ok_single' % mod,
           H + '%s::index_mut_oob' % mod]
    return out


ORACLE = [H + 'oracle::slice_%s_%s' % (k, d) for k in ('range', 'from', 'incl', 'to', 'toincl') for d in ('ok', 'oob')]
C15_COMPLETE = _fam('inl') + ORACLE + [
    H + 'eqv::eq_inline_inline_padding', H + 'eqv::eq_inline_heap_same_bytes',
    H + 'conv::i64_roundtrip', H + 'conv::f64_roundtrip_bits', H + 'conv::i64_of_bytes_is_be',
    H + 'conv::f64_of_bytes_is_be', H + 'conv::i64_wrong_len_is_err', H + 'conv::f64_wrong_len_is_err',
    H + 'meth::from_slice_inline', H + 'meth::byte_at_tail_inline', H + 'meth::to_vec_len_inline',
    H + 'meth::empty_is_empty',
]
C15_BOUNDED = _fam('v_heap') + [H + 'eqv::v_eq_inline_heap_any', H + 'conv::v_i64_heap',
                                H + 'meth::v_from_slice_long', H + 'meth::v_byte_at_tail_heap']
C16_COMPLETE = [H + 'cat::concat_inline_fits', H + 'cat::concat_inline_8_spill']
C16_BOUNDED = [H + 'cat::v_concat_heap_receiver', H + 'cat::v_concat_inline_heap_arg']

COMMON_ASSUMPTIONS = [
    'Verus 0.2026.09.13, its bundled Z3 and rustc 1.98.1 are correct',
    'transformations T1-T7 of tools/extract.py preserve behaviour (T3 is the language definition of `for`; '
    'T2 drops trace!/debug! logging statements only; T7 names the return value); provenance check enforced every run',
    'machine arithmetic is NOT idealised: usize operations in exec code carry overflow obligations',
]

HEX_TRUSTED = [
    'assume_specification <[T]>::to_vec: result view equals the slice view',
    'vstd specifications of Vec::clone / extend_from_slice / copy_from_slice / slice and array range indexing',
]

BASELINE_OFF_CMD = ('cd /repo && cargo nextest run --workspace --no-fail-fast --tool-config-file pb:/w/lib/nextest.toml '
                    '--profile pb --test-threads 8 --offline || cargo test --workspace --no-fail-fast --offline')

NOT_APPLICABLE = {
    'C01': 'pending: U_ops unit under construction in this session',
    'C02': 'pending: U_ops unit under construction in this session',
    'C03': 'pending: U_ops unit under construction in this session',
    'C04': 'pending: U_ops unit under construction in this session',
    'C05': 'pending: U_ops unit under construction in this session',
    'C06': 'pending: U_ops unit under construction in this session',
    'C07': 'pending: U_ops unit under construction in this session',
    'C10': 'pending: U_ops unit under construction in this session',
    'C19': 'pending: U_ops unit under construction in this session',
    'C08': 'save/load behaviour is the serde derive expansion of five types plus hand-written serde impls of three '
           'dependency crates plus bincode (emap deserialises through a std HashMap); no function of sodg can carry a '
           'contract beyond "calls bincode::serialize"; Verus cannot see derive output or external crates, Kani cannot hold a Sodg',
    'C09': 'a property of bincode\'s reader and the dependencies\' serde visitors, not of any sodg function a contract could be put on',
    'C11': 'merge_rec is a recursion driven by a std HashMap over an impl-Iterator built with anyhow::Context, returning '
           'anyhow::Result; bringing it into Verus means replacing those parts by hand (a model, not the code); Kani runs out '
           'of memory on any harness that constructs a Sodg',
    'C12': 'same obstacle as C11: HashMap/HashSet algebra and format! in merge(); no contract within reach of either verifier',
    'C13': 'work-list over HashSet::drain().collect() and closure-filtered iterator chains; neither verifier ingests it, '
           'Kani cannot hold a Sodg',
    'C14': 'regex, str::split/trim, u8::from_str_radix: Verus has no str byte reasoning, Kani cannot execute regex',
    'C17': 'starts_with, chars().skip().collect(), parse::<usize>(), format!: outside Verus; Kani timed out (15 min) on a one-character input',
    'C18': 'the observable is a document produced by xml-builder, format! and itertools::sorted; no contract can speak about it',
    'C20': 'output built by format!/join over HashSet-guarded recursion; no contract within reach',
}

PROPS = {
    'C15': dict(
        units=['U_hex'], level='proof',
        technique='contract-based deductive verification (Verus on extracted src/hex.rs) + complete loop-free Kani '
                  'harnesses for Index/IndexMut/eq/i64/f64 on the real file',
        level_text='Unbounded proof over the abstract byte string for the inherent accessors (all lengths, both '
                   'representations); complete (full-domain, loop-free) Kani proofs for the seven Index kinds, IndexMut, '
                   'equality and the i64/f64 conversions on the inline representation, with the slice-panic oracle itself '
                   'validated against the real [u8] indexing; heap representation bounded (len <= 12) in the thorough tier.',
        level_note='Trusted: Verus/Z3, Kani/CBMC/CaDiCaL, vstd specs of Vec/slice/array ops, assume_specification for '
                   '<[T]>::to_vec, alloc::fmt::format and Backtrace::capture stubbed on error paths; Hex invariant '
                   'inline-length <= 8 is a precondition; from_str(print(h)) not covered.',
        design_ref='DESIGN.md §4 C15',
        trusted_base=HEX_TRUSTED,
        explanation='Verus proves, for byte strings of every length and both representations, that '
                    'empty/bytes/len/is_empty/to_vec/byte_at/tail/from_slice/from_vec of the real src/hex.rs are functions '
                    'of the abstract byte string view() alone.',
        not_covered=['from_str(print(h)) == h: format!/join/hex crate are outside both verifiers'],
        parts=[parts.kani_group('kani-hex-inline-complete', C15_COMPLETE, complete=True),
               parts.kani_group('kani-hex-heap-bounded', C15_BOUNDED, complete=False, tier='thorough')],
        back_end_extra='Kani 0.68.0 -> CBMC 6.11 -> CaDiCaL for the Index/IndexMut/eq/i64/f64 harnesses',
        assumptions=['Hex values satisfy the representation invariant inline-length <= 8 (the variants are public; '
                     'a hand-built Bytes(_, 9) is outside the property)'],
    ),
    'C16': dict(
        units=['U_hex'], level='proof',
        technique='contract-based deductive verification (Verus postcondition r@ == a@ + b@ per representation arm) '
                  '+ complete Kani harnesses and concrete playback',
        level_text='Unbounded proof (all lengths) of the concat postcondition, one named obligation per representation '
                   'arm; the arm with the genuine defect is a KNOWN-FINDING pinned by a characterising obligation.',
        level_note='Trusted: Verus/Z3, vstd specs of Vec::clone/extend_from_slice/copy_from_slice; Hex invariant '
                   'inline-length <= 8 is a precondition.',
        design_ref='DESIGN.md §4 C16',
        trusted_base=HEX_TRUSTED,
        explanation='concat postcondition r@ == self@ + h@ split into one obligation per representation arm; '
                    'a and b are borrowed immutably (&self, &Self), so "leaves a and b unchanged" is enforced by the '
                    'type checker on the extracted text.',
        parts=[parts.kani_group('kani-concat-inline-complete', C16_COMPLETE, complete=True),
               parts.kani_group('kani-concat-heap-bounded', C16_BOUNDED, complete=False, tier='thorough')],
        back_end_extra='Kani 0.68.0 -> CBMC 6.11 -> CaDiCaL for the inline x inline concat harnesses',
        assumptions=['Hex values satisfy the representation invariant inline-length <= 8'],
    ),
}
