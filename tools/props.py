"""Property table: which units, which extra deciding parts, what is trusted."""
import parts

H = 'harness::'
INDEX_KINDS = ['usize', 'range', 'from', 'incl', 'to', 'toincl']


def _fam(mod):
    out = [H + '%s::index_%s_ok' % (mod, k) for k in INDEX_KINDS] + \
          [H + '%s::index_%s_oob' % (mod, k) for k in INDEX_KINDS] + \
          [H + '%s::index_full_ok' % mod, H + '%s::index_mut_ok' % mod, H + '%s::index_mut_ok_single' % mod,
           H + '%s::index_mut_oob' % mod]
    return out


ORACLE = [H + 'oracle::slice_%s_%s' % (k, d) for k in ('range', 'from', 'incl', 'to', 'toincl') for d in ('ok', 'oob')]
C15_COMPLETE = _fam('inl') + ORACLE + [
    H + 'eqv::eq_inline_inline_padding', H + 'eqv::eq_inline_heap_same_bytes',
    H + 'conv::i64_roundtrip', H + 'conv::f64_roundtrip_bits', H + 'conv::i64_of_bytes_is_be',
    H + 'conv::f64_of_bytes_is_be', H + 'conv::i64_wrong_len_is_err', H + 'conv::f64_wrong_len_is_err',
    H + 'meth::from_slice_inline', H + 'meth::byte_at_tail_inline', H + 'meth::to_vec_len_inline',
    H + 'meth::empty_is_empty', H + 'meth::tail_full_inline', H + 'meth::tail_inline_oob', H + 'meth::byte_at_inline_oob',
    H + 'conv::i64_heap8_is_be', H + 'conv::f64_heap8_is_be', H + 'conv::i64_f64_heap9_is_err',
]
C15_BOUNDED = _fam('v_heap') + [H + 'eqv::v_eq_inline_heap_any', H + 'conv::v_i64_heap', H + 'conv::v_f64_heap',
                                H + 'meth::v_tail_heap_oob', H + 'meth::v_byte_at_heap_oob',
                                H + 'meth::v_from_slice_long', H + 'meth::v_byte_at_tail_heap']
C16_COMPLETE = [H + 'cat::concat_inline_fits', H + 'cat::concat_inline_8_spill']
C16_BOUNDED = [H + 'cat::v_concat_heap_receiver', H + 'cat::v_concat_inline_heap_arg']

COMMON_ASSUMPTIONS = [
    'Verus 0.2026.09.13, its bundled Z3 and rustc 1.98.1 are correct',
    'transformations T1-T12 of tools/extract.py preserve behaviour (T3 is the language definition of `for`; T8 binds a '
    'closure parameter pattern with a `let` inside the closure body and names wildcard parameters; T2 drops trace!/debug! '
    'logging statements only; T7 names the return value; T9 turns format! into an uninterpreted function of its literal and '
    'arguments and anyhow! into an opaque error (message text not modelled); T10 writes `&a - &b` as the Sub::sub call it '
    'stands for; T11 emits the methods of `impl Debug/Display for Sodg` as inherent methods; T12 writes a `for_each` statement as the `for` loop it is defined to be); provenance check enforced every run; the dropped text is listed in each unit\'s meta.json',
    'a callee taken "by contract only" (external_body with the contract spliced from the owning unit\'s overlay) is proved in '
    'the owning unit',
    'machine arithmetic is NOT idealised: usize operations in exec code carry overflow obligations',
]

HEX_TRUSTED = [
    'assume_specification <[T]>::to_vec: result view equals the slice view',
    'vstd specifications of Vec::clone / extend_from_slice / copy_from_slice / slice and array range indexing',
]

BASELINE_OFF_CMD = ('cd /repo && cargo nextest run --workspace --no-fail-fast --tool-config-file pb:/w/lib/nextest.toml '
                    '--profile pb --test-threads 8 --offline || cargo test --workspace --no-fail-fast --offline')

NOT_APPLICABLE = {
    'C08': 'save/load behaviour is the serde derive expansion of five types plus hand-written serde impls of three '
           'dependency crates plus bincode (emap deserialises through a std HashMap); no function of sodg can carry a '
           'contract beyond "calls bincode::serialize"; a contract on bincode ("deserialize(serialize(x)) == x") would assume '
           'the property instead of deciding it; Verus cannot see derive output or external crates, Kani cannot hold a Sodg',
    'C09': 'a property of bincode\'s reader and the dependencies\' serde visitors, not of any sodg function a contract could be put on',
    'C14': 'the content of the property is parsing: commands() and deploy_one() are regex::Regex captures / replace_all, '
           'str::split/trim, a match on captured &str, u8::from_str_radix on sub-slices, HashMap::entry(..).or_insert_with(|| '
           'g.next_id()) (a closure that mutates the graph): none of it has a Verus specification and regex cannot be given one '
           'short of re-stating it; only the loop of deploy_to() (count = number of commands, stop at the first Err) is within '
           'reach, which is not the property; Kani cannot execute regex. Re-judged after C17 came within reach: the string machinery used '
           'there needs functions without generic parameters (deploy_to / deploy_one / parse carry `const N`), and what would remain '
           'provable is "the calls made are those the uninterpreted captures of the uninterpreted regexes name" - whitespace, '
           'comments, prefixes and hex formatting, i.e. the statement, would sit in trusted regex contracts',
}

GRAPH_TRUSTED = [
    'shim contracts of emap::Map (get/get_mut/insert/iter/iter_mut/with_capacity_some/clone), microstack::Stack '
    '(new/from_vec/push/is_empty/len/clear/into_iter/clone) and micromap::Map (new/insert/clear/iter/clone): '
    'specified over ghost views, not verified (bounded Kani audit in kani/deps)',
    'axiom_itermut_resolved: slots an emap IterMut never yielded keep their value when the iterator is dropped',
    'stricter borrow signatures in the shim (iter_mut(&mut self), into_iter(&self) with a lifetime) describe what those methods do',
    '`==` on Label/Persistence is structural (Verus `Structural`): discharged by Kani harnesses on the real types for C01-C03, assumed elsewhere',
    'Hex is opaque in this unit: Hex::empty() has the empty byte string, Hex::clone() keeps the byte string (proved for empty() in U_hex)',
    'assume_specification <[T]>::to_vec',
    'std Iterator::find and filter(..).map(..).collect::<Vec<_>>() on emap::Iter (inherent shim methods with contracts over the closures\' own contracts)',
    'vstd specification of Option::map / Option::unwrap',
]

SENSITIVE_SIZE = ('N', 'cap', 'capacity', 'MAX_BRANCHES', 'MAX_BRANCH_SIZE', 'HEX_SIZE', 'size_of', 'size_of_val')
# (only names that cannot be an ordinary local: `id`, `env`, `rand`, `addr`, `thread`, `process`, `static`, `random` were in
# this list at first; a local called `id` made the C10 check report a change that keeps a clone identical - removed)
SENSITIVE_NONDET = ('HashMap', 'HashSet', 'RandomState', 'thread_rng', 'Instant', 'SystemTime',
                    'available_parallelism', 'as_ptr', 'AtomicUsize', 'AtomicU64',
                    'Cell', 'RefCell', 'Rc', 'Arc', 'Mutex', 'thread_local', 'lazy_static', 'unsafe')


def sensitive_tokens(idents, which=SENSITIVE_SIZE + SENSITIVE_NONDET):
    return sorted(t for t in idents if t in which)


def classify_config_sensitive(which):
    """C10/C19 rest on the functional step contracts. When such a contract fails, the property is violated only if
    the function now consults a size parameter or a source of nondeterminism / shared state that it did not consult
    on the unchanged tree; otherwise the failure belongs to C01-C06 and says nothing against determinism."""
    def f(ctx, oid, meta, baseline):
        unit, fn = oid.split('/')[0], oid.split('/')[1]
        base = (baseline.get('sensitive::' + unit) or {}).get(fn)
        now = None
        for fd in meta['functions']:
            if fd['id'] == fn:
                now = sensitive_tokens(fd.get('idents', []), which)
        if base is None or now is None:
            return 'undecided', 'no baseline token list for %s' % fn
        base = [t for t in base if t in which]
        if now != base:
            return 'violation', 'function %s now consults %s (unchanged tree: %s)' % (fn, now, base)
        return 'undecided', ('functional contract of %s lost, but the function consults no size parameter / '
                             'nondeterminism source it did not consult before: not evidence against this property '
                             '(decided by C01-C06)' % fn)
    return f


DEPS_AUDIT = ['harness::emap_audit::' + n for n in (
    'with_capacity_some_fills_every_slot', 'insert_and_get_mut_touch_one_slot', 'get_out_of_range_panics_oob',
    'get_mut_out_of_range_panics_oob', 'insert_out_of_range_panics_oob',
    'iter_mut_yields_slots_in_order_and_break_leaves_the_rest', 'iter_find_is_first_match', 'clone_is_deep')] + \
    ['harness::microstack_audit::' + n for n in (
        'new_push_len_order', 'push_on_full_panics_oob', 'from_vec_and_clone', 'try_push_never_panics')] + \
    ['harness::micromap_audit::' + n for n in (
        'insert_replaces_in_place_or_appends', 'insert_new_key_on_full_panics_oob', 'insert_existing_key_on_full_is_fine',
        'clear_clone_remove')]

T = 'harness::eqv::'
TYPES_EQ = [T + 'label_eq_is_structural', T + 'persistence_eq_is_structural', T + 'label_copy_clone_keep_value']


def graph_prop(pid, technique, level_text, explanation, not_covered, extra=None):
    d = dict(
        units=['U_ops', 'U_model'], level='proof',
        technique=technique, level_text=level_text, explanation=explanation, not_covered=not_covered,
        trusted_base=GRAPH_TRUSTED,
        level_note='Trusted: Verus/Z3; the container contracts in shim/ (emap, micromap, microstack: specified, not '
                   'verified, Kani-audited within small bounds); Hex opaque (view + empty/clone facts). Not covered: '
                   'what merge()/join() do to the left graph, save+load, Script (slice() is C13, the acceptance decision of merge() C12, the exporters C18).',
        design_ref='DESIGN.md §3-§4',
        assumptions=['calls are within the limits and documented preconditions of the property quantifier (ids below the '
                     'capacity, bind endpoints present and distinct, at most N labels, at most 16 members, a free group '
                     'slot when two ungrouped vertices are bound): these are the `requires` of the contracts',
                     'every graph state reached through empty()/add/bind/put/data/next_id/clone (and slice(), whose result is built by '
                     'add/bind); states produced by merge()/join()/load() are outside the verified set'],
    )
    if pid in ('C01', 'C02', 'C03'):
        d['parts'] = [parts.kani_group('kani-types-structural-eq', TYPES_EQ if pid == 'C03' else TYPES_EQ[1:2],
                                       complete=True, kind='types')]
        d['back_end_extra'] = 'Kani 0.68.0 -> CBMC 6.11 for "== on Label/Persistence is structural" on the real types'
    if pid in ('C07', 'C10'):
        d.setdefault('parts', []).append(
            parts.kani_group('kani-container-contract-audit', DEPS_AUDIT, complete=False, tier='thorough', kind='deps'))
    if extra:
        d.update(extra)
    return d


PROPS = {
    'C01': graph_prop(
        'C01',
        'contract-based deductive verification (Verus): representation invariant + functional step postconditions on the '
        'extracted real add/bind/put/data/kid/empty/clone, trace lemmas by induction over histories',
        'Unbounded proof: every state satisfying the invariant, every id, every N and capacity, every history (induction). '
        'The code refines the step relations (U_ops); the step relations imply the property statement (U_model lemmas L01*).',
        'wf is established by empty() and preserved by every operation; present-set can only shrink in the collecting arm of '
        'data_step; lemmas: only a first read of a grouped vertex removes, it removes exactly the reader\'s group, none of the '
        'removed holds an unread datum, ungrouped vertices are never removed, groups grow only by bind.',
        ['slice() cannot remove anything (it borrows the graph immutably: enforced by the type checker on the extracted text, C13)',
         'merge(): join() removes a left vertex when the right graph is not a tree (by design of join(); documented as unpredictable); save/load are outside both verifiers']),
    'C02': graph_prop(
        'C02',
        'contract-based deductive verification (Verus): counter invariant stores[b] == #unread members, functional step '
        'postconditions, panic-freedom = every callee precondition and machine-arithmetic obligation discharged',
        'Unbounded proof over all histories; the independent reference model of the quantifier is the step relation itself '
        '(derived from the statement), and L02 proves "collects <=> the last unread datum of the group is read".',
        'the three bind join rules, data collects all members and nobody else iff the recount is zero, put counts once; no '
        'unwrap/index/push/insert precondition or +=1/-=1 can fail within the limits.',
        ['merge()/join() callers']),
    'C03': graph_prop(
        'C03',
        'contract-based deductive verification (Verus): edge upsert / lookup / data-bytes postconditions with complete frames; kids() verified (its impl-Iterator result yields the edge list)',
        'Unbounded proof: bind = upsert at the old position or append, kid = lookup of the first matching label, data returns the '
        'bytes of the last put in both arms, every other slot\'s edges and data are framed, including across collections.',
        'kid-lookup, data-result, *-step frames; lemmas L03 (kid after bind for every vertex/label, frame of edges/data).',
        ['Hex byte strings are opaque here; both sides of the 8-byte '
         'boundary are covered in U_hex (C15)']),
    'C04': graph_prop(
        'C04',
        'contract-based deductive verification (Verus): two-case postcondition of add() (blank on an absent id, nothing on a '
        'present id) with complete frame, for every wf state',
        'Unbounded proof; covers recycled ids and ids from next_id() because the contract quantifies over every wf state.',
        'add-step, add-wf, lemma L04.',
        ['the callers slice_some/merge_rec benefit only by composition']),
    'C05': graph_prop(
        'C05',
        'contract-based deductive verification (Verus) of the real next_id() (closure-parameter patterns bound by the '
        'mechanical rewriting T8, std Iterator::find specified for the emap iterator), "allocator position unchanged" '
        'frame on every other operation, clone copies it; trace lemma "never repeats"',
        'Unbounded proof: the id returned is below the capacity, absent, at or above the position and the least such; the '
        'position moves past it; no other operation moves the position; L05: along any history (including after cloning) the '
        'ids returned are strictly increasing and absent when returned.',
        'next_id-fresh, next_id-alloc, *-alloc of add/bind/put/data/empty/clone, lemmas L05 and L19-next-id-determined.',
        ['Script uses the allocator by composition only (not verified)',
         'contract of Iterator::find on emap::Iter is trusted (shim)'],
        extra=dict(units=['U_ops', 'U_model', 'U_mergelog'],
                   explanation='next_id-fresh, next_id-alloc, *-alloc of add/bind/put/data/empty/clone, lemmas L05 and L19-next-id-determined; '
                               'merge(): U_mergelog/merge_rec-own-calls-of-a-kid-step - a vertex is added only under the id next_id() has '
                               'just returned, with no call on the graph in between (so it is absent by next_id\'s contract)')),
    'C06': graph_prop(
        'C06',
        'contract-based deductive verification (Verus): data() frees the slot (list empty, counter 0), bind() takes the least '
        'free slot >= 2, sentinels keep slots 0/1 reserved; pigeonhole lemma over the 14 usable slots',
        'Unbounded proof; history length is one induction step, so hundreds of cycles are covered by construction.',
        'data-step (collecting arm), bind-step (first_free), empty-state (sentinels), lemmas L06 (slot returns, free slot exists '
        'when fewer than 14 groups alive, no leaked slot, reserved slots never free).',
        []),
    'C07': graph_prop(
        'C07',
        'contract-based deductive verification (Verus), two units on the same extracted functions: U_ops (total: every '
        'container call within its safe-use precondition, without relying on debug assertions) and U_guard (guard-mode '
        'shim: normal return => ids below the capacity, label fits, group had room); bounded Kani audit of the containers',
        'Proof over the trusted container contracts that (1) within the limits no container call can leave its safe-use '
        'precondition and no arithmetic can overflow, and (2) a call that exceeds a limit does not return normally, i.e. it '
        'stops in the container\'s own panic before any write (every write goes through a container call). sodg itself has '
        'no unsafe code; absence of UB inside the containers is NOT proved, only audited within small bounds (thorough tier).',
        'U_ops: safety obligations (callee preconditions, unwrap, overflow) and wf/shape of every function; U_guard: the '
        'guard-* postconditions of add/bind/put/data/kid.',
        ['merge/join/slice are not covered (join() removes a vertex slot, which leaves the verified invariant)',
         'microstack::Stack::from_vec() does not check its length (used only with a one-element vector in empty())',
         'microstack::Stack::new() uses uninit().assume_init() on an array of MaybeUninit-free values (assumption)',
         'leaks (emap never drops its elements) are not memory errors in the property\'s sense'],
        extra=dict(units=['U_ops', 'U_guard'],
                   level_note='Trusted: Verus/Z3; the total- and guard-mode container contracts (emap/micromap/microstack panic '
                              'before any out-of-range access when debug assertions are on: audited by bounded Kani harnesses, '
                              'not proved); debug-assertion builds (the property\'s own premise).')),
    'C10': graph_prop(
        'C10',
        'contract-based deductive verification (Verus): clone() postcondition (all four fields equal in the abstract view) + '
        'functional step contracts => same future (lemma L19)',
        'Proof for the copy being exact; "same subsequent behaviour" is the corollary that the step relations are functions of '
        'the abstract state; independence rests on the trusted deep-copy contract of emap::Map::clone.',
        'clone-equal on the real clone.rs; step clauses are premises (a failing step clause is a C10 violation only when the '
        'function newly consults shared/nondeterministic state).',
        ['independence of the two copies is value semantics of emap::Map::clone (trusted; Kani audit in the thorough tier)'],
        extra=dict(classify=classify_config_sensitive(SENSITIVE_NONDET), classify_exempt=('clone',))),
    'C18': dict(
        units=['U_xml', 'U_hex', 'U_hexfmt'], level='proof',
        technique='contract-based deductive verification (Verus) of the real to_xml() and to_dot(): the element tree handed to '
                  'the XML builder equals xml_doc(abstract graph) (one <v> per present vertex, ascending, edges in label '
                  'order, data if any); to_dot() emits one node line per present vertex and one line per edge; xml-builder, '
                  'itertools::sorted_by_key, Display and string functions by trusted contracts',
        level_text='Unbounded proof on the extracted real to_xml(): when it returns Ok, the text is '
                   'utf8(xml_render(xml_doc(abs))) where xml_doc is a spec function of the abstract graph - exactly one <v> '
                   'element per PRESENT vertex and none for absent ids, in ascending id order, one <e> per edge with its '
                   'label and target in label order, a <data> element iff the vertex has data - and the lemma that two '
                   'graphs with the same present ids, edge sets, data and has-data status give the same document however '
                   'they were built. For to_dot(): header + one line per present vertex + one line per edge of a present '
                   'vertex in label order + closing line; the node line is format!(literal, id, colour marker iff data, '
                   'data text iff data), the edge line format!(literal, source id, target id, label, two styling fragments '
                   'left open) - format! being an uninterpreted function of its literal and the Display texts of its '
                   'arguments (T9). Every loop terminates.',
        level_note='Trusted: Verus/Z3; contracts of the xml-builder crate (XMLElement::new/add_attribute/add_child/add_text, '
                   'XML::set_root_element/generate = an uninterpreted function of the element tree), of itertools '
                   'sorted_by_key (stable sort; identity when the keys already ascend; sorting by label is a function of the '
                   'edge set when labels are distinct), of std from_utf8 / str::replace / ToString (functions of their '
                   'arguments), of Hex::print (a function of the byte string). NOT decided: the concrete characters '
                   '(escaping, hex formatting, DOT line text), i.e. everything below the level of "which elements, '
                   'attributes and texts are handed to the builder".',
        design_ref='DESIGN.md §4 C18',
        trusted_base=GRAPH_TRUSTED + [
            'xml-builder 0.5: XMLElement / XML / XMLBuilder specified over a ghost element tree XNode; what generate() writes is '
            'xml_render(tree), uninterpreted',
            'itertools::sorted_by_key on the emap iterator / its filter (keys = slot ids: already ascending, stable sort = identity) '
            'and on the micromap pair iterator (sorted_pairs: a permutation; canonical when keys are distinct)',
            'ToString for usize / Label, str::replace, std::str::from_utf8, Hex::print: functions of their arguments '
            '(dec_text, label_text, replaced, utf8_text, hex_text: uninterpreted)',
            '<[T]>::join: opaque; format! (T9): an uninterpreted function of its literal and the Display texts of its arguments'],
        explanation='to_xml-text-is-a-function-of-the-present-graph (postcondition), the loop obligations '
                    '(vertices-iterated-are-the-present-ones, one-v-per-present-vertex-ascending, one-e-per-edge-in-label-order, '
                    'v-element, document), to_dot-line-count; lemmas lemma_xml_doc_determined, lemma_v_nodes_count.',
        not_covered=['the characters of the output (XML escaping, the hex text of data, the text of every DOT line)',
                     'to_dot(): the two styling fragments of an edge line (colour of rho/sigma edges, pi style)'],
        assumptions=['the graph is well-formed (wf)'],
    ),
    'C19': graph_prop(
        'C19',
        'contract-based deductive verification (Verus): post-state and result of every core operation are functions of the '
        'abstract pre-state and the arguments; those functions take no N / capacity parameter (limits occur only in requires)',
        'Corollary of the functional contracts (lemma L19: equal abstract state + same call => equal abstract state and answer, '
        'for any two edge capacities); the enumeration order of kids() is the edge SEQUENCE of the abstract state.',
        'all *-step / result clauses are premises; a failing one is a C19 violation only when the function newly consults a size '
        'parameter (N, capacity, MAX_*) or a nondeterminism source it did not consult on the unchanged tree.',
        ['merge() and slice() (hash containers) are not covered', 'next_id() body: see C05'],
        extra=dict(units=['U_ops', 'U_model', 'U_slice'], classify=classify_config_sensitive(SENSITIVE_SIZE + SENSITIVE_NONDET))),

    'C20': dict(
        units=['U_debug', 'U_display', 'U_inspect', 'U_hex', 'U_hexfmt'], level='proof',
        technique='contract-based deductive verification (Verus) of the real Debug::fmt, Display::fmt, v_print() of src/debug.rs '
                  'and inspect()/inspect_v() of src/inspect.rs: the text Debug/v_print write is a function of the abstract '
                  'graph (one line per present vertex in ascending id order with its id, one attribute per edge with label '
                  'and target, its data iff it has data; v_print: id, data marker iff data, exactly the labels); inspect_v() '
                  'terminates on every graph (measure: ids not yet seen) and inspect(v) returns one line per edge of every '
                  'vertex reachable from v, each vertex expanded once (closure + soundness of the seen-set, lemma "closed '
                  'and sound = reachable"); format!/join/Formatter/HashSet by trusted contracts',
        level_text='Unbounded proof on the extracted real Debug::fmt (T11: emitted as an inherent method, the graph invariant '
                   'is its precondition), Display::fmt (T11 too; what '
                   'std\'s `impl Debug for &T` forwards to is a trusted contract) and v_print(): when Debug::fmt returns Ok, '
                   'the text appended to the formatter is join(lines, "\\n") where the lines start with exactly one line per '
                   'PRESENT vertex, ascending by id, each format!(literal, id, join(attributes, ", ")) with one attribute '
                   'format!(literal, label, target) per edge in stored order followed by the Display text of the data iff the '
                   'vertex has data; the group lines that follow are left open. Display writes what Debug writes. v_print(v) '
                   'returns format!(literal, v, marker-iff-data, join(labels, ", ")) with exactly v\'s labels in stored order. '
                   'inspect_v(v, seen) (T12: its two `for_each` statements, whose closures capture `&mut seen` / `&mut lines`, '
                   'become loops): the recursion terminates on EVERY graph, cyclic or not (decreases: capacity minus the '
                   'number of ids seen, the vertex in work included; `seen` only grows and holds ids below the capacity; the '
                   'walk descends only into a target that had not been seen), returns Ok, the number of lines it returns is '
                   'the number of edges of the vertices it expanded - v and every id it newly put into `seen` - every target '
                   'of an expanded vertex ends up in `seen`, and everything in `seen` was there before or is reachable from '
                   'v. For inspect(v), which starts from the empty set, the lemma "a set that holds v, is closed under edges '
                   'and holds only ids reachable from v is the set reachable from v" gives the statement: the text is '
                   'format!(literal, v, join(lines, "\\n")) with exactly as many lines as the vertices reachable from v '
                   'have edges - each such vertex expanded once, each of its edges listed once. Every loop terminates.',
        level_note='NOT decided: a bijection between the lines of inspect() and the edges (their number is the number of edges and every '
                   'line is format!(literal, label, target, marker) of an edge of the graph, re-indented once per level); the group lines of '
                   'Debug; the characters of every output (format! is an uninterpreted function of its literal and of the '
                   'Display texts of its arguments, T9; format!("{}", x) is the Display text of x). Trusted: Verus/Z3; '
                   '<[String]>::join as an uninterpreted function of parts and separator, Formatter::write_str appends, '
                   'std `impl Debug for &T` forwards to T, '
                   'std HashSet<usize> (new/insert/contains over a ghost set), itertools sorted() on the edge iterator (a '
                   'permutation in key order). Edge targets below the capacity and no edge from a vertex to itself are '
                   'preconditions (invariants of every history built through the documented API: lemmas L13).',
        design_ref='DESIGN.md §4 C20',
        trusted_base=GRAPH_TRUSTED + [
            'std `map(f).collect::<Vec<_>>()` on micromap::Iter / microstack::IntoIter (inherent shim methods: f(item) for every '
            'item in stored order)',
            'len()/is_empty()/keys() of src/misc.rs by contract only (proved in U_ops), should the printing code use them; '
            'Hex::len()/is_empty() on the opaque Hex',
            'format! (T9): fmt_text(literal, display texts), uninterpreted; axiom_fmt_identity: format!("{}", x) is the Display '
            'text of x; Display text of usize / Label / Hex: dec_text / label_text / hex_text (uninterpreted)',
            '<[String]>::join(&str): joined(texts, separator), uninterpreted; Formatter::write_str appends its argument',
            'U_display: `impl Debug for &T` forwards to T\'s Debug::fmt (assume_specification + axiom_dbg_sodg: for Sodg<N> '
            'that is the contract proved in U_debug); axiom_fmt_req_sodg (vstd\'s marker that formatting a Sodg has no precondition)',
            'U_inspect: std HashSet<usize>::new/insert/contains over a ghost Set; itertools sorted() on micromap::Iter (the pairs '
            'in key order: a permutation of the stored pairs); T12: `it.for_each(|x| body);` is `for x in it { body }`'],
        explanation='debug-lists-exactly-the-present-vertices-with-their-edges-and-data (postcondition), the loop obligations '
                    '(one-line-per-present-vertex-in-id-order, vertex-line-carries-id-edges-and-data, group-lines-come-after, '
                    'termination of both loops), display-writes-what-debug-writes, '
                    'v_print-shows-the-marker-iff-data-and-exactly-the-labels; inspect-terminates-on-any-graph, '
                    'inspect-nested-call-only-for-a-target-not-seen-before, inspect-one-line-per-edge-of-every-vertex-expanded-once, '
                    'inspect-expands-every-target-and-only-reachable-vertices, inspect-vertex-is-marked-seen-before-its-edges-'
                    'are-walked, inspect-lists-every-edge-of-every-reachable-vertex-once, inspect-edge-loop, inspect-copy-loop; '
                    'lemmas L20-* (incl. L20-expanded-set-is-exactly-the-reachable-set).',
        not_covered=['inspect(): that the line of each edge occurs exactly once is decided by count + membership only (as many lines as '
                     'edges, every line the line of some edge of the graph), not by a bijection; the marker and the literals are open',
                     'the group lines (b..: {..}) of Debug: only that they come after the vertex lines',
                     'the characters of the output (what format! does with its literal)'],
        assumptions=['the graph is well-formed (wf); v_print / inspect: v below the capacity; inspect: edge targets are ids '
                     'below the capacity (an invariant of every history: lemmas L13)'],
    ),
    'C17': dict(
        units=['U_label', 'U_labeldisp'], level='proof',
        technique='contract-based deductive verification (Verus) of the real Label::from_str, Debug::fmt and Display::fmt of '
                  'src/label.rs: the round-trip clauses of the statement are the postconditions of from_str over label_text, '
                  'the text fmt is proved to write; the std string / iterator / format! functions the bodies call are trusted '
                  'contracts over vstd\'s Seq<char> view of str',
        level_text='Unbounded proof (every text, every label value) on the extracted real from_str / fmt: (1) for every label '
                   'text of 1 to 8 non-space characters (alpha sign + canonical decimal index, or not starting with the alpha '
                   'sign) from_str returns Ok(l) with label_text(l) == text; (2) for every single character c, every index n '
                   'and every name of 2 to 8 non-space characters padded to eight that does not start with the alpha sign, '
                   'from_str(label_text(value)) == Ok(value); (3) a text of more than 8 characters not starting with the alpha '
                   'sign, and an alpha sign followed by a text usize::from_str refuses, give Err; Debug::fmt and Display::fmt '
                   'append exactly label_text(value) = the character / the alpha sign and the decimal index / the name '
                   'without its padding; lemma: distinct texts give distinct labels. The loop of from_str terminates and '
                   'writes inside the array (safety obligations).',
        level_note='Trusted (std semantics, stated over vstd\'s views, listed in the evidence): str::starts_with(char), '
                   'str::parse::<usize> as a partial function of the text with usize_parse(dec_text(n)) == Some(n), '
                   'Chars::count, String: FromIterator<char>/<&char>, Enumerate::next, Iterator::filter on a slice iterator, '
                   'format! of a literal with one placeholder after a brace-free prefix, Display of char and usize, '
                   'Formatter::write_str, `impl Debug for &T` forwards to T; str::len is the UTF-8 length (vstd::utf8). '
                   'KNOWN-FINDING C17-2: a name (Str) value whose first character is the alpha sign prints a text that is '
                   'read back as an index. "An equal label" is == on Label, structural for all chars / usize / [char; 8] by the complete '
                   'Kani harness label_eq_is_structural (part of this check); "an edge bound under a parsed name is found under the '
                   'same name built directly" is then the composition with C03 (kid() compares labels with ==).',
        design_ref='DESIGN.md §4 C17',
        trusted_base=[
            'shim/stdstr.rs: str::starts_with / str::parse::<usize> / Chars::count / String: FromIterator / Enumerate::next '
            '(assume_specification + axioms); T13 wrappers __w_enumerate (any iterator), __w_filter (slice::Iter<char>), '
            '__w_len (str / String: UTF-8 length; arrays, Vec<char>: number of elements): external_body trait methods whose body is the std call',
            'axiom_dec_text: Display for usize writes a non-empty digit string that usize::from_str reads back; '
            'axiom_char_text: Display for char writes the character; axiom_fmt_one_slot: format! of "PREFIX{name}"',
            'vstd: str view, Chars / Skip / vec::IntoIter / slice::Iter prophetic iterator models, collect into Vec, arrays',
            'U_labeldisp: `impl Debug for &T` forwards to T (assume_specification) + axiom_dbg_label (for Label that is the '
            'contract proved in U_label) + axiom_fmt_req_label',
            'anyhow::Error opaque; From<ParseIntError> for it (the `?`)'],
        explanation='from_str-parsing-then-printing-returns-the-text, from_str-printing-then-parsing-a-single-character / '
                    '-an-index / -a-name / -a-name-that-starts-with-the-alpha-sign (KNOWN-FINDING C17-2), '
                    'from_str-rejects-more-than-eight-characters, from_str-rejects-a-malformed-index, the loop obligations '
                    '(walks-the-characters, fills-the-padded-array, branch-context), fmt-writes-the-label-text, '
                    'display-writes-the-label-text, lemmas L17-*.',
        not_covered=['the characters std produces for a usize (dec_text is uninterpreted: non-empty digits, read back by parse)',
                     'which texts usize::from_str accepts beyond canonical numerals ("+5", "007" are accepted by std: not "malformed")',
                     'kid() lookups with parsed vs constructed labels: composition with C03, not a separate obligation'],
        parts=[parts.kani_group('kani-label-eq-is-structural', [TYPES_EQ[0], TYPES_EQ[2]], complete=True, kind='types'),
               parts.native_audit('native-audit-of-the-trusted-std-contracts')],
        assumptions=['the std contracts of shim/stdstr.rs (audited natively in the thorough tier: exhaustive over char for '
                     'Display of char and str::len, sampled otherwise; an audit, not a proof)'],
    ),
    'C11': dict(
        units=['U_mergelog', 'U_ops'], level='proof',
        technique='contract-based deductive verification (Verus) of the real merge()/merge_rec() against a ghost transcript of the '
                  'calls made on the left graph: the operations on the left graph are stubs that only append to the transcript; '
                  'the contract says which calls the right graph justifies; composition lemma over the recursion',
        level_text='Unbounded proof on the extracted real merge()/merge_rec() of the part of C11 a per-function contract can carry: '
                   'merge touches the left graph only through put/bind/add/next_id (and join); data is put exactly onto the images '
                   'of the right vertices that have data, and it is their data; an edge is bound only from the image of a right '
                   'vertex to the image of one of its kids under that kid\'s label; a kid that was not mapped before is mapped onto '
                   'the vertex found (or created) under the same label; a vertex is added only under an id next_id() has just '
                   'returned and is bound to its parent at once; the mapping is only extended; every present right vertex is '
                   'mapped when Ok is returned. PARTIAL with respect to the statement: what those calls then do to the left graph '
                   'is the subject of C01-C04 (each within its own limits), and the graph-level conclusions (paths exist, images '
                   'distinct, Ok for all trees, join() never reached for trees) are not drawn.',
        level_note='Trusted: Verus/Z3; std HashMap contracts; the stubs of add/bind/put/next_id/join say only "this call is appended to '
                   'the transcript" (kid() is a query); kids()/len()/keys() of the right graph by their contracts (proved in U_ops). '
                   'Not covered: see level text; the right graph must have no dangling edges (trees of present vertices).',
        design_ref='DESIGN.md §4 C11',
        trusted_base=GRAPH_TRUSTED + [
            'std::collections::HashMap<usize,usize>: new/contains_key/insert/get/len over a finite ghost map',
            'add/bind/put/next_id/join on the left graph: stubs whose only effect is to append their call (with its arguments / '
            'result) to the ghost transcript log(); kid(): contract-free query',
            'contracts of kids()/len()/keys(): taken by contract only in this unit, proved in U_ops'],
        explanation='merge_rec-transcript-justified-by-the-right-graph, merge_rec-mapping-only-extended, merge_rec-data-goes-onto-the-image, '
                    'merge_rec-own-calls-of-a-kid-step, merge_rec-descend-step, merge-touches-the-left-graph-only-as-the-right-graph-demands; '
                    'lemmas lemma_log_concat3 (composition), lemma_kid_block, lemma_log_start.',
        not_covered=['the effect of the transcript on the left graph (paths exist, data readable, GC state): composition with C01-C04 under '
                     'their limit preconditions, not shown for the recursion',
                     'distinct right vertices land on distinct left vertices; join() is never reached for trees; Ok for every pair of trees',
                     'the answers of kid() (whether an existing kid is really found): kid() is verified in U_ops, its use here is a query'],
        assumptions=['the right graph is well-formed, `right` is present, no edge of a present right vertex leads to an absent vertex '
                     '(trees of present vertices)', 'the left graph is well-formed on entry (only used for self.len())'],
    ),
    'C12': dict(
        units=['U_merge', 'U_ops'], level='proof',
        technique='contract-based deductive verification (Verus) of the real merge()/merge_rec(): invariant "every key of '
                  '`mapped` is a present right vertex reachable from `right`", counting lemma (as many keys as present '
                  'vertices => every present vertex is a key), termination measure of the recursion; the operations on the '
                  'LEFT graph are contract-free stubs (nothing about the left graph is claimed)',
        level_text='Unbounded proof on the extracted real merge()/merge_rec() of the acceptance decision: merge() returns Ok only '
                   'if every present vertex of the right graph is a key of the mapping and reachable from `right`; hence a '
                   'present right vertex that cannot be reached from `right` (isolated vertex, detached sub-tree, `right` not '
                   'the root) makes it return Err. merge_rec() terminates on every right graph (also cyclic ones). Partial '
                   'correctness with respect to the left graph: its operations may panic; nothing is claimed about them here.',
        level_note='Trusted: Verus/Z3; contracts of std HashMap<usize,usize> (new/contains_key/insert/get/len) and of the '
                   'std items used only to build the error text (HashSet::from_iter, set difference, sort_unstable, '
                   'keys().copied().collect()); kids()/len()/keys() of the right graph by their contracts (proved in U_ops). '
                   'Not covered: the TEXT of the error (which vertices it names; format!/anyhow! are opaque, T9); what the '
                   'mapping means for the left graph (C11). Precondition from the property\'s quantifier: no edge of a '
                   'present right vertex leads to an absent vertex.',
        design_ref='DESIGN.md §4 C12',
        trusted_base=GRAPH_TRUSTED + [
            'std::collections::HashMap<usize,usize>: new/contains_key/insert/get/len over a finite ghost map',
            'HashSet::from_iter / `&a - &b` / into_iter().collect() / <[T]>::sort_unstable / keys().copied().collect(): '
            'accepted without functional contract (they only feed the error text)',
            'add/bind/put/kid/next_id/join on the left graph: contract-free stubs in this unit (may do anything to the left '
            'graph, may panic); they cannot touch the right graph or the mapping (Rust borrows)',
            'contracts of kids()/len()/keys(): taken by contract only in this unit, proved in U_ops'],
        explanation='merge-ok-only-if-every-present-right-vertex-is-reachable (postcondition of merge), '
                    'merge-ok-only-if-every-present-right-vertex-is-mapped (assertion at the Ok exit), merge_rec-* (keys are '
                    'present right vertices, keys only grow, new keys are reachable from `right`, termination).',
        not_covered=['the text of the error message ("naming the vertices it missed"): format!/anyhow! are opaque',
                     'right graphs with dangling edges (an edge of a present vertex to a collected vertex) are outside the '
                     'property\'s quantifier; on such a graph the count comparison can be fooled (observed: a dangling target '
                     'makes up for an isolated present vertex and merge() returns Ok) - recorded in DESIGN.md as an observation'],
        assumptions=['the right graph is well-formed, `right` is present, and no edge of a present right vertex leads to an '
                     'absent vertex (closed_present: the property quantifies over trees of present vertices)',
                     'the left graph is well-formed on entry (only used for self.len())'],
    ),
    'C13': dict(
        units=['U_slice', 'U_model', 'U_ops'], level='proof',
        technique='contract-based deductive verification (Verus) of the real slice()/slice_some(): work-list invariant '
                  '(discovered / queued / expanded sets), rebuild invariant, termination measures; callees empty/add/bind '
                  'by contract only; std HashSet and the emap filter iterator by trusted contracts',
        level_text='Unbounded proof on the extracted real slice_some()/slice(): for every well-formed source graph, every '
                   'start id below the capacity and every total deterministic predicate, within the stated limit (at most 15 '
                   'vertices kept, so that the group table of the new graph cannot overflow) the call returns Ok, the '
                   'present ids of the result are exactly the ids reachable along accepted edges, each kept vertex carries '
                   'exactly the source edges whose target is kept (in source order), nothing else exists in it, and every '
                   'loop terminates (also on cyclic graphs). The source is borrowed immutably.',
        level_note='Trusted: Verus/Z3; contracts of std HashSet<usize> (new/insert/contains/is_empty/drain+collect, iteration '
                   'order unspecified), of the emap iterator filter(), of emap/micromap/microstack (shim/), micromap length <= N; '
                   'the contracts of empty/add/bind are taken as given here and proved in U_ops. Limit: at most 15 kept '
                   'vertices (sufficient for the group table: 14 groups of 16). Data is not copied by slice (the property '
                   'does not ask for it).',
        design_ref='DESIGN.md §4 C13',
        trusted_base=GRAPH_TRUSTED + [
            'std::collections::HashSet<usize>: new/insert/contains/is_empty/drain().collect() specified over a finite ghost set; '
            'the order in which drain() yields is left unspecified (the proof holds for every order)',
            'emap::Iter::filter(..) as an iterator (next() returns the next accepted slot; skipped slots were rejected)',
            'micromap::Map view has at most N pairs (fixed array)',
            'contracts of Sodg::empty/add/bind: taken by contract only in this unit (external_body), proved in U_ops'],
        explanation='is_slice(src, pf, v, result) as postcondition of the real code; lemmas L13: the preconditions '
                    '"edge targets are in range, no self-loops" are invariants of every history; the slice is determined '
                    'by the abstract source graph (independent of N, of how the graph was built and of hash iteration order).',
        not_covered=['slices of more than 15 vertices (outside the stated limit; larger ones may exceed the 14x16 group table)',
                     'whether p is called with the arguments the property intends is part of the contract (v, target, label)'],
        assumptions=['the predicate p is total and deterministic (pred_ok): same arguments, same answer',
                     'at most 15 vertices are reachable along accepted edges (reach_bound): the limit within which the '
                     'rebuilt graph fits the fixed group table',
                     'the source graph was built through the API (wf, edge targets in range, no self-loops: lemmas L13)'],
    ),
    'C15': dict(
        units=['U_hex', 'U_hexfmt', 'U_hexidx'], level='proof',
        technique='contract-based deductive verification (Verus on extracted src/hex.rs) + complete loop-free Kani '
                  'harnesses for Index/IndexMut/eq/i64/f64 on the real file',
        level_text='Unbounded proof over the abstract byte string for the inherent accessors AND for the seven Index impls within '
                   'the range in which the byte slice accepts the index (U_hexidx: all lengths, both representations: no panic, '
                   'the slice\'s answer; the precondition of the trait method is vstd\'s IndexSpecImpl::index_req, panic! is a call '
                   'with `requires false`); complete (full-domain, loop-free) Kani proofs for the seven Index kinds, IndexMut, '
                   'equality and the i64/f64 conversions on the inline representation, with the slice-panic oracle itself '
                   'validated against the real [u8] indexing; for the heap representation the direction "panics when the slice would" '
                   'and IndexMut stay bounded (len <= 12) in the thorough tier.',
        level_note='Trusted: Verus/Z3, Kani/CBMC/CaDiCaL, vstd specs of Vec/slice/array ops, assume_specification for '
                   '<[T]>::to_vec, alloc::fmt::format and Backtrace::capture stubbed on error paths; Hex invariant '
                   'inline-length <= 8 is a precondition. from_str(print(h)): proved over trusted contracts of hex::decode (a partial '
                   'function of the text that reads two hexadecimal digits appended to a text as one more byte), str::replace(char, ""), '
                   '<[String]>::join and format!("{:02X}") (two hexadecimal digits, no dash) - what the clause says about sodg is '
                   'that from_str removes exactly the separator print inserts and nothing else, decodes, and builds from the bytes.',
        design_ref='DESIGN.md §4 C15',
        trusted_base=HEX_TRUSTED + [
            'shim/hexcrate.rs: hex::decode (decode_rel, hex_decode uninterpreted; axiom_decode_empty; axiom_02x_decode: '
            'format!("{:02X}", b) is two non-dash characters that hex::decode reads back as b when appended to a text), '
            'str::replace(char, "") = the text without that character, <[String]>::join = parts with the separator between them; '
            'FromStr declared to Verus; From<FromHexError> for the opaque anyhow error'],
        explanation='Verus proves, for byte strings of every length and both representations, that '
                    'empty/bytes/len/is_empty/to_vec/byte_at/tail/from_slice/from_vec/print of the real src/hex.rs are functions '
                    'of the abstract byte string view() alone; print-text-parses-back-to-the-bytes + '
                    'from_str-decodes-the-text-without-its-dashes + lemma L15-from_str-of-print-is-the-same-bytes give '
                    'from_str(print(h)) == h.',
        not_covered=['from_str(print(h)) == h is decided as "same byte string" (view); that == on Hex is equality of the byte strings is '
                     'the Kani eq harness; the characters format!/hex::decode exchange are a trusted axiom (axiom_02x_decode)'],
        parts=[parts.kani_group('kani-hex-inline-complete', C15_COMPLETE, complete=True),
               parts.kani_group('kani-hex-heap-bounded', C15_BOUNDED, complete=False, tier='thorough'),
               parts.native_audit('native-audit-of-the-trusted-std-and-hex-crate-contracts')],
        back_end_extra='Kani 0.68.0 -> CBMC 6.11 -> CaDiCaL for the Index/IndexMut/eq/i64/f64 harnesses',
        assumptions=['Hex values satisfy the representation invariant inline-length <= 8 (the variants are public; '
                     'a hand-built Bytes(_, 9) is outside the property)'],
    ),
    'C16': dict(
        units=['U_hex'], level='proof',
        technique='contract-based deductive verification (Verus postcondition r@ == a@ + b@ per representation arm) '
                  '+ complete Kani harnesses and concrete playback',
        level_text='Unbounded proof (all lengths) of the concat postcondition, one named obligation per representation '
                   'arm; the arm with the genuine defect is a KNOWN-FINDING pinned by a characterising obligation.',
        level_note='Trusted: Verus/Z3, vstd specs of Vec::clone/extend_from_slice/copy_from_slice; Hex invariant '
                   'inline-length <= 8 is a precondition.',
        design_ref='DESIGN.md §4 C16',
        trusted_base=HEX_TRUSTED,
        explanation='concat postcondition r@ == self@ + h@ split into one obligation per representation arm; '
                    'a and b are borrowed immutably (&self, &Self), so "leaves a and b unchanged" is enforced by the '
                    'type checker on the extracted text.',
        parts=[parts.kani_group('kani-concat-inline-complete', C16_COMPLETE, complete=True),
               parts.kani_group('kani-concat-heap-bounded', C16_BOUNDED, complete=False, tier='thorough')],
        back_end_extra='Kani 0.68.0 -> CBMC 6.11 -> CaDiCaL for the inline x inline concat harnesses',
        assumptions=['Hex values satisfy the representation invariant inline-length <= 8'],
    ),
}
