import subprocess,shutil,os,re,sys
def sh(c): r=subprocess.run(c,shell=True,capture_output=True,text=True); return r.returncode,(r.stdout+r.stderr)
edits={
 'a-rename-local-put': ('ops.rs', lambda s: re.sub(r'(pub fn put\(.*?\n    \})', lambda m: m.group(1).replace('vtx','vertex'), s, flags=re.S)),
 'b-reorder-put': ('ops.rs', lambda s: s.replace("        vtx.persistence = Persistence::Stored;\n        vtx.data = d.clone();","        vtx.data = d.clone();\n        vtx.persistence = Persistence::Stored;")),
 'c-reformat-bind': ('ops.rs', lambda s: s.replace("        vtx1.edges.insert(a, v2);","        // remember the edge first\n\n        vtx1\n            .edges\n            .insert(a, v2);")),
 'd-rename-members': ('ops.rs', lambda s: s.replace("let members = self.branches.get_mut(branch).unwrap();","let mem = self.branches.get_mut(branch).unwrap();").replace("for v in members.into_iter()","for v in mem.into_iter()").replace("                    members.clear();","                    mem.clear();").replace("members.len(),","mem.len(),").replace("                        members\n","                        mem\n")),
 'e-flip-eq': ('ops.rs', lambda s: s.replace("if branch == BRANCH_STATIC {","if BRANCH_STATIC == branch {")),
 'f-hex-flip': ('hex.rs', lambda s: s.replace("if slice.len() <= HEX_SIZE {","if HEX_SIZE >= slice.len() {")),
 'g-literal-one': ('ops.rs', lambda s: s.replace("        if ours == BRANCH_STATIC {\n            if theirs == BRANCH_STATIC {","        if ours == 1 {\n            if theirs == 1 {")),
 'h-new-map-instead-of-clear': ('ops.rs', lambda s: s.replace("            vtx.edges.clear();","            vtx.edges = micromap::Map::new();")),
 'i-early-return-add': ('ops.rs', lambda s: s.replace("""        if vtx.branch == BRANCH_NONE {
            vtx.branch = BRANCH_STATIC;
            vtx.data = Hex::empty();
            vtx.persistence = Persistence::Empty;
            vtx.edges.clear();
        }""","""        if vtx.branch != BRANCH_NONE {
            return;
        }
        vtx.branch = BRANCH_STATIC;
        vtx.data = Hex::empty();
        vtx.persistence = Persistence::Empty;
        vtx.edges.clear();""")),
 'j-concat-reserve': ('hex.rs', lambda s: s.replace("                    let mut v = Vec::new();\n                    v.extend_from_slice(b);","                    let mut v = Vec::with_capacity(HEX_SIZE + h.len());\n                    v.extend_from_slice(b);")),
}
props=sys.argv[1].split(',')
for name,(f,fn) in edits.items():
    shutil.rmtree('/tmp/scr',ignore_errors=True); os.makedirs('/tmp/scr'); shutil.copytree('/repo/src','/tmp/scr/src'); shutil.copy('/repo/Cargo.lock','/tmp/scr/')
    p='/tmp/scr/src/'+f; s=open(p).read(); s2=fn(s)
    if s2==s: print(name,'EDIT DID NOT APPLY'); continue
    open(p,'w').write(s2)
    row=[]
    for pr in props:
        if (f=='hex.rs') != (pr in ('C15','C16')): continue
        rc,o=sh('cd /verif && ./check %s --repo /tmp/scr'%pr)
        row.append('%s=%s'%(pr,{0:'ok',1:'VIOL',2:'undec'}[rc]))
        if rc!=0:
            for l in o.split('\n'):
                if l.startswith(('UNDECIDED','failed obl')): print('    ',pr,l[:160]); break
    print(name,' '.join(row))
